from __future__ import annotations

import argparse
import importlib
import os
import sys

from .common import run_check

LEVELS = {"C16": "translation_validation"}


def main(argv=None) -> int:
    ap = argparse.ArgumentParser()
    ap.add_argument("pid")
    ap.add_argument("--tier", default=os.environ.get("VERIF_TIER", "quick"), choices=["quick", "thorough"])
    a = ap.parse_args(argv)
    pid = a.pid.upper()
    if pid == "SELFTEST":
        from . import selftest
        return selftest.main(a.tier)
    # watchdog: a check that does not finish is a broken analysis (exit 2), never a hang
    import signal

    def _late(signum, frame):
        print(f"ANALYSIS-ERROR property={pid}: the check did not finish within its time budget")
        os._exit(2)
    try:
        signal.signal(signal.SIGALRM, _late)
        signal.alarm(int(os.environ.get("VERIF_TIMEOUT", "1500" if a.tier == "thorough" else "420")))
    except (ValueError, AttributeError):
        pass
    try:
        mod = importlib.import_module(f".checks.{pid.lower()}", __package__)
    except ModuleNotFoundError:
        print(f"ANALYSIS-ERROR property={pid}: no check module")
        return 2
    return run_check(pid, lambda chk: mod.run(chk), a.tier, LEVELS.get(pid, "other"))


if __name__ == "__main__":
    sys.exit(main())
