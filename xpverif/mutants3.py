"""Second batch of behaviour-preserving refactorings (every check must stay silent) — see mutants.py for the format."""
from __future__ import annotations

from .mutants import M, SUB, TKR, TKZ

ALLP = ["C%02d" % i for i in range(1, 19)]


def B(name, edits):
    return M(name, "ALL", edits, expect="silent", checks=ALLP)


MUTANTS3 = [
    B("benign-indent-loop-char-local", [(TKZ, '''    while state.pos < state.max:  # measure leading whitespace
        if state.line[state.pos] == " ":
            column += 1
        elif state.line[state.pos] == "\\t":
            column = (column // tabsize + 1) * tabsize
        elif state.line[state.pos] == "\\f":
            column = 0
''', '''    while state.pos < state.max:  # measure leading whitespace
        ch = state.line[state.pos]
        if ch == " ":
            column += 1
        elif ch == "\\t":
            column = (column // tabsize + 1) * tabsize
        elif ch == "\\f":
            column = 0
''')]),
    B("benign-indents-pop", [(TKZ, "        state.indents = state.indents[:-1]\n", "        state.indents.pop()\n")]),
    B("benign-nl-end-is-max", [(TKZ, "            (state.lnum, len(state.line)),\n            state.line,\n        )\n        state.blank_lnum = state.lnum\n",
                                "            (state.lnum, state.max),\n            state.line,\n        )\n        state.blank_lnum = state.lnum\n")]),
    B("benign-comment-rest-local", [(TKZ, '            comment_token = state.line[state.pos :].rstrip("\\r\\n")\n',
                                    '            rest = state.line[state.pos :]\n            comment_token = rest.rstrip("\\r\\n")\n')]),
    B("benign-eof-test-operands-swapped", [(TKZ, "    if state.pos == 0 and not state.line:\n", "    if not state.line and state.pos == 0:\n")]),
    B("benign-end-tokens-range", [(TKZ, "    for _ in state.indents[1:]:  # pop remaining indent levels\n",
                                   "    for _ in range(len(state.indents) - 1):  # pop remaining indent levels\n")]),
    B("benign-in-mode-early-return", [(TKZ, "        return bool(self.end_progs) and isinstance(self.end_progs[-1].mode, mode)\n",
                                       "        if not self.end_progs:\n            return False\n        return isinstance(self.end_progs[-1].mode, mode)\n")]),
    B("benign-span-last-token-local", [(SUB, '''        end = self._tokenizer.get_last_non_whitespace_token().end
        return {"lineno": lnum, "col_offset": col, "end_lineno": end[0], "end_col_offset": end[1]}
''', '''        last = self._tokenizer.get_last_non_whitespace_token()
        return {"lineno": lnum, "col_offset": col, "end_lineno": last.end[0], "end_col_offset": last.end[1]}
''')]),
    B("benign-adjacent-operands-swapped", [(SUB, "        return end == start\n", "        return start == end\n")]),
    B("benign-proc-args-restructured", [(SUB, '''            if not stash:
                stash = self._append_node_or_token(stash, ar)
                continue

            if self.is_adjacent(stash, ar):
                stash = self._append_node_or_token(stash, ar)
            else:
                yield stash
                stash = self._append_node_or_token(None, ar)
''', '''            if stash and not self.is_adjacent(stash, ar):
                yield stash
                stash = None
            stash = self._append_node_or_token(stash, ar)
''')]),
    B("benign-error-args-one-tuple", [(SUB, '''        args = (self.filename, start[0], start[1] + 1, line)
        args += (end[0], end[1] + 1)  # type: ignore

        return SyntaxError(message, args)
''', '''        return SyntaxError(message, (self.filename, start[0], start[1] + 1, line, end[0], end[1] + 1))
''')]),
    B("benign-binop-end-pair-local", [(SUB, '''        return ast.BinOp(
            left=tree,
            op=ast.Add(),
            right=ast.Constant(value=cmd.string, **cmd.loc()) if isinstance(cmd, TokenInfo) else cmd,
            **locs,
            end_lineno=cmd.end_lineno if isinstance(cmd, ast.AST) else cmd.end[0],
            end_col_offset=cmd.end_col_offset if isinstance(cmd, ast.AST) else cmd.end[1],
        )
''', '''        right = ast.Constant(value=cmd.string, **cmd.loc()) if isinstance(cmd, TokenInfo) else cmd
        return ast.BinOp(
            left=tree,
            op=ast.Add(),
            right=right,
            **locs,
            end_lineno=cmd.end_lineno if isinstance(cmd, ast.AST) else cmd.end[0],
            end_col_offset=cmd.end_col_offset if isinstance(cmd, ast.AST) else cmd.end[1],
        )
''')]),
    B("benign-reset-same-index-test-removed", [(TKR, "        if index == self._index:\n            return\n        assert 0 <= index", "        assert 0 <= index")]),
    B("benign-diagnose-len-test", [(TKR, "        if not self._tokens:\n            self.getnext()\n        return self._tokens[-1]",
                                    "        if len(self._tokens) == 0:\n            self.getnext()\n        return self._tokens[-1]")]),
]

# ------------------------------------------------------------------ third batch
MUTANTS3 += [
    B("benign-parse-string-stream-local", [(SUB, '''        tok_stream = generate_tokens(io.StringIO(source, newline=None).readline)
        tokenizer = Tokenizer(tok_stream, verbose=verbose)
        parser = cls(tokenizer, verbose=verbose, py_version=py_version)
        return parser.parse(mode if mode == "eval" else "file")
''', '''        stream = io.StringIO(source, newline=None)
        tok_stream = generate_tokens(stream.readline)
        tokenizer = Tokenizer(tok_stream, verbose=verbose)
        parser = cls(tokenizer, verbose=verbose, py_version=py_version)
        return parser.parse(mode if mode == "eval" else "file")
''')]),
    B("benign-macro-arg-text-loop", [(SUB, '''        st = "".join((tok.string if isinstance(tok, TokenInfo) else tok) for tok in a).strip()
''', '''        parts = [(tok.string if isinstance(tok, TokenInfo) else tok) for tok in a]
        st = "".join(parts).strip()
''')]),
    B("benign-handle-proc-name-local", [(SUB, '''        return xonsh_call(f"__xonsh__.{method}", *args, **locs)
''', '''        name = f"__xonsh__.{method}"
        return xonsh_call(name, *args, **locs)
''')]),
    B("benign-conversion-guard-reordered", [(SUB, '''        if len(s) > 1 or s not in ("s", "r", "a"):
''', '''        if s not in ("s", "r", "a") or len(s) > 1:
''')]),
    B("benign-ensure-real-tuple-isinstance", [(SUB, '''        if not isinstance(value, float | int):
''', '''        if not isinstance(value, (float, int)):
''')]),
    B("benign-add-literals-xor", [(SUB, '''        if isinstance(left, bytes) != isinstance(right, bytes):
''', '''        if isinstance(left, bytes) is not isinstance(right, bytes):
''')]),
    B("benign-get-lines-enumerate", [(TKR, '''                for line in f:
                    count += 1
                    if count in line_numbers:
''', '''                for line in f:
                    count = count + 1
                    if count in line_numbers:
''')]),
    B("benign-macro-params-opener-set", [(TKR, '''            if tok.type == Token.OP and tok.string[-1] in "([{":  # push paren level
''', '''            if tok.type == Token.OP and tok.string[-1] in ("(", "[", "{"):  # push paren level
''')]),
    B("benign-cover-guard-flipped", [(TKZ, '''        if state.lnum > self.upto:
            self.contline += state.line
            self.upto = state.lnum
''', '''        if self.upto < state.lnum:
            self.contline += state.line
            self.upto = state.lnum
''')]),
    B("benign-physical-lines-first-only", [(TKR, '''        if len(lines) != tok.end[0] - tok.start[0] + 1:
            lines = lines[:1]
''', '''        if len(lines) != tok.end[0] - tok.start[0] + 1:
            del lines[1:]
''')]),
    B("benign-showpeek-fields-local", [(SUB, '''        tok = self._tokenizer.peek()
        return f"{tok.start[0]}.{tok.start[1]}: {tok.type}:{tok.string!r}"
''', '''        tok = self._tokenizer.peek()
        row, col = tok.start
        return f"{row}.{col}: {tok.type}:{tok.string!r}"
''')]),
    B("benign-end-tokens-newline-pos-local", [(TKZ, '''    if state.last_line and state.last_line[-1] not in "\\r\\n" and state.blank_lnum != state.lnum - 1:
        yield TokenInfo(
            Token.NEWLINE,
            "",
            (state.lnum - 1, len(state.last_line)),
            (state.lnum - 1, len(state.last_line) + 1),
            "",
        )
''', '''    if state.last_line and state.last_line[-1] not in "\\r\\n" and state.blank_lnum != state.lnum - 1:
        width = len(state.last_line)
        yield TokenInfo(Token.NEWLINE, "", (state.lnum - 1, width), (state.lnum - 1, width + 1), "")
''')]),
]

# ------------------------------------------------------------------ breaking variants of the D36 repair (implicit NEWLINE by scanner state)
MUTANTS3 += [
    M("c08-implicit-newline-by-text", "C08", [(TKZ, 'and state.blank_lnum != state.lnum - 1:', 'and not state.last_line.strip().startswith("#"):')], mention="L4"),
    M("c08-implicit-newline-blank-not-recorded", "C08", [(TKZ, "        state.blank_lnum = state.lnum\n        return True  # continue", "        return True  # continue")], mention="L4"),
    M("c08-implicit-newline-off-by-one", "C08", [(TKZ, 'and state.blank_lnum != state.lnum - 1:', 'and state.blank_lnum != state.lnum:')], mention="L4"),
]
