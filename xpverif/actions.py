"""Syntactic helpers over grammar-IR alternatives and their action expressions."""
from __future__ import annotations

import ast
from typing import Iterator, Optional

from . import asdl
from .ir import (Alt, Cut, Forced, Gather, Group, Item, Lit, Look, NamedItem, Opt, Ref, Rep, Rule, Tok,
                 walk_alt_items)

OP_CLASSES = set(asdl.BINOP) | set(asdl.UNOP) | set(asdl.CMPOP) | set(asdl.BOOLOP)
SYNONYMS = {"||": "or", "&&": "and"}  # documented xonsh spellings


def all_alts(rules: dict[str, Rule]) -> Iterator[tuple[Rule, str, Alt]]:
    """(rule, key, alt) for every alternative including those of nested groups; keys are stable
    construct identities: rule#altI[.iJ#altK]*"""
    def rec(alts, prefix, rule):
        for i, a in enumerate(alts):
            key = f"{prefix}#alt{i}"
            yield rule, key, a
            for j, ni in enumerate(a.items):
                yield from rec_item(ni.item, f"{key}.i{j}", rule)

    def rec_item(it: Item, prefix, rule):
        if isinstance(it, Group):
            yield from rec(it.alts, prefix, rule)
        else:
            for c in it.children():
                yield from rec_item(c, prefix, rule)

    for r in rules.values():
        yield from rec(r.alts, r.name, r)


def ast_calls(expr: ast.AST) -> list[ast.Call]:
    """`ast.X(...)` constructor calls in source order."""
    out = [n for n in ast.walk(expr) if isinstance(n, ast.Call) and isinstance(n.func, ast.Attribute)
           and isinstance(n.func.value, ast.Name) and n.func.value.id == "ast" and asdl.is_node_class(n.func.attr)]
    out.sort(key=lambda n: (getattr(n, "lineno", 0), getattr(n, "col_offset", 0)))
    return out


def op_classes_in(expr: ast.AST) -> list[str]:
    return [c.func.attr for c in ast_calls(expr) if c.func.attr in OP_CLASSES and not c.args and not c.keywords]


def capture_names(alt: Alt) -> dict[str, int]:
    return {ni.name: i for i, ni in enumerate(alt.items) if ni.name}


def free_captures(expr: ast.AST, caps: dict[str, int]) -> set[str]:
    return {n.id for n in ast.walk(expr) if isinstance(n, ast.Name) and n.id in caps}


def literal_paths(items: list[NamedItem], limit: int = 64) -> list[list[str]]:
    """All sequences of literal values consumed by the items (lookaheads excluded, group alternatives
    enumerated, optional/repeated parts taken once or skipped)."""
    paths: list[list[str]] = [[]]

    def item_paths(it: Item) -> list[list[str]]:
        if isinstance(it, Lit):
            return [[it.value]]
        if isinstance(it, (Tok, Ref, Cut, Look)):
            return [[]]
        if isinstance(it, Forced):
            return item_paths(it.item)
        if isinstance(it, Group):
            out = []
            for a in it.alts:
                out += literal_paths(a.items, limit)
            return out or [[]]
        if isinstance(it, Opt):
            return [[]] + item_paths(it.item)
        if isinstance(it, Rep):
            base = item_paths(it.item)
            return base if it.min else [[]] + base
        if isinstance(it, Gather):
            return item_paths(it.item)
        return [[]]

    for ni in items:
        ips = item_paths(ni.item)
        new = []
        for p in paths:
            for ip in ips:
                new.append(p + ip)
                if len(new) > limit:
                    break
        paths = new[:limit]
    # de-duplicate
    seen, out = set(), []
    for p in paths:
        t = tuple(p)
        if t not in seen:
            seen.add(t)
            out.append(p)
    return out


def is_raise_only(expr: Optional[ast.AST]) -> bool:
    """Every leaf of the action (through conditional expressions) raises or is the constant None."""
    if expr is None:
        return True
    if isinstance(expr, ast.IfExp):
        return is_raise_only(expr.body) and is_raise_only(expr.orelse)
    if isinstance(expr, ast.Constant) and expr.value is None:
        return True
    if isinstance(expr, ast.Call) and isinstance(expr.func, ast.Attribute) and isinstance(expr.func.value, ast.Name) \
            and expr.func.value.id == "self" and expr.func.attr.startswith("raise_"):
        return True
    return False
