"""Behaviour-preserving normal form of the hand-written modules, applied before any rule looks at them.

The structural rules compare shapes; three kinds of everyday refactoring changed shapes without changing behaviour and made
rules fire on correct code (found with the benign refactoring mutants of the self-test).  Each normalisation below is an
equivalence of Python programs under a side condition that is checked on the spot:

N1  `X = NewType("X", T)` is the identity at run time: `X(e)` -> `e`.
N2  An `else` after a branch that cannot fall through (ends in return / raise / continue / break, recursively) is the same as
    the statements following the `if`: `if c: return a` / `else: B`  ->  `if c: return a` ; `B`.
N3  Copy propagation of a local that names an *immutable coordinate of a token*: `lnum = tok.start[0]` ... `lnum`  ->
    `tok.start[0]`, when the local is bound exactly once, the right-hand side is a chain of NamedTuple fields (declared in the
    repository) and constant subscripts on a name that is not rebound after the binding, every class that has all the
    attributes read through that name is a NamedTuple (structural typing: the value cannot be anything mutable), and every
    use comes after the binding.

N4  Copy propagation of a local bound once to an *access path* (`ch = state.line[state.pos]`, `rest = state.line[state.pos:]`):
    the uses are replaced by the path when every use is reached, in program order within the block of the binding, before any
    statement that stores to something the path reads or makes a call (calls may change the state objects).

N5  `x = x + k` is `x += k` for a numeric constant k.
N9  Inside `if x == PATH:` (x a plain local, PATH an access path such as `state.pos`) the local *is* the path: its uses in the
    branch are replaced by the path up to the first statement that can change what the path reads (a store to it, a call other
    than a NamedTuple constructor / pure builtin; the replaced statement's own right-hand side is evaluated before its store).
    A `yield` does not count: the objects the paths of these modules read (scanner state, tokenizer) are never handed out.
    N5 also applies to attribute targets (`s.pos = s.pos + 1` -> `s.pos += 1`).

N10 `for v in range(A, B): BODY; A = v + 1` with A, B access paths, where BODY has no `continue`, writes neither A's nor B's
    reads nor v, makes no impure call, and v is not used outside the loop, is `while A < B: BODY[v := A]; A += 1`: v equals A at
    the top of every iteration, and the range ends exactly when A reaches B.

N12 `a, b = X, Y` with plain-name targets, neither of which is read by X or Y, is `a = X` ; `b = Y`.

N6  A local bound once and used once, in the statement right after its binding and before anything else with an effect is
    evaluated there, is inlined (single-use temporaries).

Line numbers of the surviving nodes are untouched, so reports still point at the source."""
from __future__ import annotations

import ast
import copy
from typing import Optional


# ----------------------------------------------------------------------------------------------------------------- N1
def newtype_names(mods: dict[str, ast.Module]) -> set[str]:
    out = set()
    for mod in mods.values():
        for n in mod.body:
            if isinstance(n, ast.Assign) and len(n.targets) == 1 and isinstance(n.targets[0], ast.Name) and isinstance(n.value, ast.Call):
                f = n.value.func
                if (isinstance(f, ast.Name) and f.id == "NewType") or (isinstance(f, ast.Attribute) and f.attr == "NewType"):
                    out.add(n.targets[0].id)
    return out


class _EraseNewType(ast.NodeTransformer):
    def __init__(self, names: set[str]):
        self.names = names

    def visit_Call(self, node: ast.Call):
        self.generic_visit(node)
        if isinstance(node.func, ast.Name) and node.func.id in self.names and len(node.args) == 1 and not node.keywords:
            return node.args[0]
        return node


# ----------------------------------------------------------------------------------------------------------------- N2
def _terminates(body: list[ast.stmt]) -> bool:
    if not body:
        return False
    last = body[-1]
    if isinstance(last, (ast.Return, ast.Raise, ast.Continue, ast.Break)):
        return True
    if isinstance(last, ast.If):
        return bool(last.orelse) and _terminates(last.body) and _terminates(last.orelse)
    return False


def _unnest(body: list[ast.stmt]) -> list[ast.stmt]:
    out: list[ast.stmt] = []
    for st in body:
        for fld in ("body", "orelse", "finalbody"):
            seq = getattr(st, fld, None)
            if isinstance(seq, list) and seq and isinstance(seq[0], ast.stmt):
                setattr(st, fld, _unnest(seq))
        if isinstance(st, ast.Try):
            for h in st.handlers:
                h.body = _unnest(h.body)
        if isinstance(st, ast.Match):
            for c in st.cases:
                c.body = _unnest(c.body)
        if isinstance(st, ast.If) and st.orelse and _terminates(st.body):
            tail = st.orelse
            st.orelse = []
            out.append(st)
            out.extend(_unnest(tail))
        else:
            out.append(st)
    return out


# ----------------------------------------------------------------------------------------------------------------- N3
def immutable_fields(mods: dict[str, ast.Module]) -> dict:
    """Structural typing facts: {"classes": {class: attrs}, "tuples": {NamedTuple classes}, "fields": NamedTuple field names}.
    A variable on which attributes A are read is an instance of a class that has all of A; if every such class is a
    NamedTuple, the fields read through it cannot change."""
    classes: dict[str, set[str]] = {}
    tuples: set[str] = set()
    fields: set[str] = set()
    for mod in mods.values():
        for n in ast.walk(mod):
            if not isinstance(n, ast.ClassDef):
                continue
            attrs = classes.setdefault(n.name, set())
            is_nt = any((isinstance(b, ast.Name) and b.id == "NamedTuple") or (isinstance(b, ast.Attribute) and b.attr == "NamedTuple")
                        for b in n.bases)
            for st in n.body:
                if isinstance(st, ast.AnnAssign) and isinstance(st.target, ast.Name):
                    attrs.add(st.target.id)
                    if is_nt:
                        fields.add(st.target.id)
                elif isinstance(st, ast.Assign):
                    attrs.update(t.id for t in st.targets if isinstance(t, ast.Name))
                elif isinstance(st, (ast.FunctionDef, ast.AsyncFunctionDef)):
                    attrs.add(st.name)
                    for x in ast.walk(st):
                        if isinstance(x, ast.Attribute) and isinstance(x.value, ast.Name) and x.value.id == "self" and \
                                isinstance(x.ctx, ast.Store):
                            attrs.add(x.attr)
            if is_nt:
                tuples.add(n.name)
                attrs.update({"_replace", "_asdict", "_fields", "count", "index"})
    return {"classes": classes, "tuples": tuples, "fields": fields}


def _is_tuple_instance(fn, root: str, facts: dict) -> bool:
    reads = {n.attr for n in _own(fn) if isinstance(n, ast.Attribute) and isinstance(n.value, ast.Name) and n.value.id == root}
    if any(isinstance(n, ast.Attribute) and isinstance(n.value, ast.Name) and n.value.id == root and isinstance(n.ctx, (ast.Store, ast.Del))
           for n in _own(fn)):
        return False
    cands = [c for c, attrs in facts["classes"].items() if reads and reads <= attrs]
    return bool(cands) and all(c in facts["tuples"] for c in cands)


def _own(fn):
    todo = list(ast.iter_child_nodes(fn))
    while todo:
        n = todo.pop(0)
        yield n
        if isinstance(n, (ast.FunctionDef, ast.AsyncFunctionDef, ast.Lambda, ast.ClassDef)):
            continue
        todo.extend(ast.iter_child_nodes(n))


def _coordinate_path(e: ast.expr, fields: set[str]) -> Optional[str]:
    """Root name of `name(.field | [const])+`, or None."""
    steps = 0
    while True:
        if isinstance(e, ast.Attribute) and e.attr in fields:
            e = e.value
            steps += 1
        elif isinstance(e, ast.Subscript) and isinstance(e.slice, ast.Constant) and isinstance(e.slice.value, int):
            e = e.value
            steps += 1
        else:
            break
    if steps and isinstance(e, ast.Name):
        return e.id
    return None


def _copy_propagate(fn, facts: dict) -> None:
    fields = facts["fields"]
    stores: dict[str, list[ast.AST]] = {}
    for n in _own(fn):
        if isinstance(n, ast.Name) and isinstance(n.ctx, (ast.Store, ast.Del)):
            stores.setdefault(n.id, []).append(n)
    nested_uses = {n.id for d in _own(fn) if isinstance(d, (ast.FunctionDef, ast.AsyncFunctionDef, ast.Lambda))
                   for n in ast.walk(d) if isinstance(n, ast.Name)}
    for st in list(_own(fn)):
        if not (isinstance(st, ast.Assign) and len(st.targets) == 1 and isinstance(st.targets[0], ast.Name)):
            continue
        name = st.targets[0].id
        if len(stores.get(name, [])) != 1 or name in nested_uses:
            continue
        root = _coordinate_path(st.value, fields)
        if root is None or root == name or not _is_tuple_instance(fn, root, facts):
            continue
        pos = (st.lineno, st.col_offset)
        # the root is not rebound after the binding, every use of the local follows the binding
        if any((s.lineno, s.col_offset) > pos for s in stores.get(root, [])):
            continue
        uses = [n for n in _own(fn) if isinstance(n, ast.Name) and n.id == name and isinstance(n.ctx, ast.Load)]
        if not uses or any((u.lineno, u.col_offset) <= (st.end_lineno, st.end_col_offset) for u in uses):
            continue
        # binding inside a loop whose body rebinds the root *before* the binding is fine (same iteration); the uses must sit
        # in the same statement list or deeper, i.e. be dominated by the binding: approximated by "same enclosing block chain"
        if not _dominates(fn, st, uses):
            continue
        _replace(fn, name, st)


def _blocks(fn):
    for n in [fn, *list(_own(fn))]:
        for fld in ("body", "orelse", "finalbody"):
            seq = getattr(n, fld, None)
            if isinstance(seq, list) and seq and isinstance(seq[0], ast.stmt):
                yield seq
        if isinstance(n, ast.Try):
            for h in n.handlers:
                yield h.body


def _dominates(fn, st: ast.stmt, uses: list[ast.Name]) -> bool:
    for seq in _blocks(fn):
        if any(s is st for s in seq):
            i = next(k for k, s in enumerate(seq) if s is st)
            inside = {id(x) for s in seq[i + 1:] for x in ast.walk(s)}
            return all(id(u) in inside for u in uses)
    return False


def _replace(fn, name: str, st: ast.Assign) -> None:
    value = st.value

    class R(ast.NodeTransformer):
        def visit_Name(self, node: ast.Name):
            if node.id == name and isinstance(node.ctx, ast.Load):
                return ast.copy_location(copy.deepcopy(value), node)
            return node

        def visit_FunctionDef(self, node):
            return node if node is not fn else self.generic_visit(node)

        visit_AsyncFunctionDef = visit_FunctionDef

        def visit_Lambda(self, node):
            return node

    R().visit(fn)
    for seq in _blocks(fn):
        for k, s in enumerate(seq):
            if s is st:
                del seq[k]
                if not seq:
                    seq.append(ast.copy_location(ast.Pass(), st))
                return


def _inline_temporaries(fn) -> None:
    """N6: a local bound once and used exactly once, in the statement that immediately follows its binding, is that
    expression — provided nothing with an effect is evaluated in that statement before the use (so the order of evaluation is
    unchanged).  `readline = io.StringIO(s).readline` / `f(readline)`  ->  `f(io.StringIO(s).readline)`."""
    params = {a.arg for a in fn.args.posonlyargs + fn.args.args + fn.args.kwonlyargs}
    changed = True
    while changed:
        changed = False
        stores: dict[str, int] = {}
        loads: dict[str, list] = {}
        for n in _own(fn):
            if isinstance(n, ast.Name):
                if isinstance(n.ctx, (ast.Store, ast.Del)):
                    stores[n.id] = stores.get(n.id, 0) + 1
                else:
                    loads.setdefault(n.id, []).append(n)
        nested = {n.id for d in _own(fn) if isinstance(d, (ast.FunctionDef, ast.AsyncFunctionDef, ast.Lambda)) for n in ast.walk(d)
                  if isinstance(n, ast.Name)}
        for seq in list(_blocks(fn)):
            for i, st in enumerate(seq[:-1]):
                if not (isinstance(st, ast.Assign) and len(st.targets) == 1 and isinstance(st.targets[0], ast.Name)):
                    continue
                name = st.targets[0].id
                if stores.get(name) != 1 or name in params or name in nested or len(loads.get(name, [])) != 1:
                    continue
                if any(isinstance(x, (ast.Yield, ast.YieldFrom, ast.Await, ast.NamedExpr, ast.Lambda, ast.ListComp, ast.SetComp,
                                      ast.DictComp, ast.GeneratorExp, ast.Starred)) for x in ast.walk(st.value)):
                    continue
                use = loads[name][0]
                nxt = seq[i + 1]
                if isinstance(nxt, (ast.For, ast.While, ast.If, ast.Try, ast.With, ast.FunctionDef, ast.ClassDef, ast.AsyncFor, ast.AsyncWith, ast.Match)):
                    # only the header expression of a compound statement is "the next thing evaluated"
                    header = nxt.test if isinstance(nxt, (ast.If, ast.While)) else (nxt.iter if isinstance(nxt, (ast.For, ast.AsyncFor)) else None)
                    if header is None or not any(x is use for x in ast.walk(header)):
                        continue
                    scope = header
                    if isinstance(nxt, ast.While):
                        continue  # re-evaluated on every iteration
                else:
                    if not any(x is use for x in ast.walk(nxt)):
                        continue
                    scope = nxt
                upos = (use.lineno, use.col_offset)
                # nothing with an effect completes before the use
                if any(isinstance(x, (ast.Call, ast.Yield, ast.YieldFrom, ast.Await)) and
                       (getattr(x, "end_lineno", 0), getattr(x, "end_col_offset", 0)) <= upos for x in ast.walk(scope)):
                    continue
                # an assignment evaluates its right-hand side first, then the targets: a use inside a target comes after the value
                if isinstance(nxt, (ast.Assign, ast.AugAssign, ast.AnnAssign)):
                    tg = nxt.targets if isinstance(nxt, ast.Assign) else [nxt.target]
                    if any(x is use for t in tg for x in ast.walk(t)):
                        continue
                _replace(fn, name, st)
                changed = True
                break
            if changed:
                break


def _simple_target(e) -> bool:
    while isinstance(e, ast.Attribute):
        e = e.value
    return isinstance(e, ast.Name)


def _guarded_equalities(fn, facts: dict) -> None:
    """N9."""
    tuples = set((facts or {}).get("tuples", ()))
    params = {a.arg for a in fn.args.posonlyargs + fn.args.args + fn.args.kwonlyargs}

    def disturbing(st, reads: set[str]) -> bool:
        roots = {r.split(".")[0] for r in reads}
        for n in ast.walk(st):
            if isinstance(n, ast.Call):
                f = n.func
                if not (isinstance(f, ast.Name) and (f.id in PURE_CALLS or f.id in tuples)):
                    return True
            if isinstance(n, ast.Await):
                return True
            if isinstance(n, (ast.Name, ast.Attribute, ast.Subscript)) and isinstance(getattr(n, "ctx", None), (ast.Store, ast.Del)):
                base = n
                while isinstance(base, (ast.Attribute, ast.Subscript)):
                    base = base.value
                if isinstance(base, ast.Name) and base.id in roots:
                    return True
        return False

    for node in list(_own(fn)):
        if not (isinstance(node, ast.If) and isinstance(node.test, ast.Compare) and len(node.test.ops) == 1 and isinstance(node.test.ops[0], ast.Eq)):
            continue
        a, b = node.test.left, node.test.comparators[0]
        if isinstance(a, ast.Name) and _access_path(b):
            name, path = a.id, b
        elif isinstance(b, ast.Name) and _access_path(a):
            name, path = b.id, a
        else:
            continue
        if name in params or name in _reads(path):
            continue
        reads = _reads(path)
        for st in node.body:
            if isinstance(st, (ast.If, ast.For, ast.While, ast.Try, ast.With, ast.Match, ast.FunctionDef)):
                break
            calls_impure = any(isinstance(n, ast.Call) and not (isinstance(n.func, ast.Name) and (n.func.id in PURE_CALLS or n.func.id in tuples))
                               for n in ast.walk(st))
            if calls_impure:
                break
            stores_name = any(isinstance(n, ast.Name) and n.id == name and isinstance(n.ctx, (ast.Store, ast.Del)) for n in ast.walk(st))
            if stores_name:
                break

            class R(ast.NodeTransformer):
                def visit_Name(self, n):
                    if n.id == name and isinstance(n.ctx, ast.Load):
                        return ast.copy_location(copy.deepcopy(path), n)
                    return n
            # an augmented store to the path itself reads it first: fine; a plain store evaluates the value first: fine
            if isinstance(st, ast.Assign):
                st.value = R().visit(st.value)
            elif isinstance(st, ast.AugAssign):
                st.value = R().visit(st.value)
            elif isinstance(st, (ast.Expr, ast.Return)):
                if st.value is not None:
                    st.value = R().visit(st.value)
            else:
                break
            if disturbing(st, reads):
                break


def _split_tuple_assign(fn) -> None:
    """N12."""
    def rewrite(seq: list[ast.stmt]) -> None:
        i = 0
        while i < len(seq):
            st = seq[i]
            for fld in ("body", "orelse", "finalbody"):
                blk = getattr(st, fld, None)
                if isinstance(blk, list) and blk and isinstance(blk[0], ast.stmt):
                    rewrite(blk)
            if isinstance(st, ast.Try):
                for h in st.handlers:
                    rewrite(h.body)
            if isinstance(st, ast.Assign) and len(st.targets) == 1 and isinstance(st.targets[0], ast.Tuple) and isinstance(st.value, ast.Tuple) \
                    and len(st.targets[0].elts) == len(st.value.elts) and all(isinstance(t, ast.Name) for t in st.targets[0].elts):
                names = {t.id for t in st.targets[0].elts}
                read = {n.id for v in st.value.elts for n in ast.walk(v) if isinstance(n, ast.Name)}
                if len(names) == len(st.targets[0].elts) and not (names & read) and not any(isinstance(v, ast.Starred) for v in st.value.elts):
                    new = [ast.copy_location(ast.Assign(targets=[t], value=v), st) for t, v in zip(st.targets[0].elts, st.value.elts)]
                    seq[i:i + 1] = new
                    i += len(new)
                    continue
            i += 1
    rewrite(fn.body)


def _range_loops(fn, facts: dict) -> None:
    """N10."""
    tuples = set((facts or {}).get("tuples", ()))

    def rewrite(seq: list[ast.stmt]) -> None:
        for i, st in enumerate(seq):
            for fld in ("body", "orelse", "finalbody"):
                blk = getattr(st, fld, None)
                if isinstance(blk, list) and blk and isinstance(blk[0], ast.stmt):
                    rewrite(blk)
            if not (isinstance(st, ast.For) and isinstance(st.target, ast.Name) and not st.orelse and isinstance(st.iter, ast.Call)
                    and isinstance(st.iter.func, ast.Name) and st.iter.func.id == "range" and len(st.iter.args) == 2 and not st.iter.keywords):
                continue
            v = st.target.id
            a, b = st.iter.args
            if not (_access_path(a) and _access_path(b)) or len(st.body) < 2:
                continue
            last = st.body[-1]
            if not (isinstance(last, ast.Assign) and len(last.targets) == 1 and ast.unparse(last.targets[0]) == ast.unparse(a)
                    and ast.unparse(last.value) == f"{v} + 1"):
                continue
            body = st.body[:-1]
            reads = _reads(a) | _reads(b)
            roots = {r.split(".")[0] for r in reads}
            bad = False
            for n in [x for s2 in body for x in ast.walk(s2)]:
                if isinstance(n, (ast.Continue, ast.Return, ast.Yield, ast.YieldFrom, ast.Await, ast.FunctionDef, ast.Lambda)):
                    bad = True
                if isinstance(n, ast.Call) and not (isinstance(n.func, ast.Name) and (n.func.id in PURE_CALLS or n.func.id in tuples)):
                    bad = True
                if isinstance(n, (ast.Name, ast.Attribute, ast.Subscript)) and isinstance(getattr(n, "ctx", None), (ast.Store, ast.Del)):
                    base = n
                    while isinstance(base, (ast.Attribute, ast.Subscript)):
                        base = base.value
                    if isinstance(base, ast.Name) and (base.id in roots or base.id == v):
                        bad = True
            inside = {id(x) for x in ast.walk(st)}
            if any(isinstance(x, ast.Name) and x.id == v and id(x) not in inside for x in ast.walk(fn)):
                bad = True
            if bad:
                continue

            class R(ast.NodeTransformer):
                def visit_Name(self, n):
                    if n.id == v and isinstance(n.ctx, ast.Load):
                        return ast.copy_location(copy.deepcopy(a), n)
                    return n
            new_body = [R().visit(s2) for s2 in body]
            target = copy.deepcopy(last.targets[0])
            new_body.append(ast.copy_location(ast.AugAssign(target=target, op=ast.Add(), value=ast.Constant(value=1)), last))
            seq[i] = ast.copy_location(ast.While(test=ast.Compare(left=copy.deepcopy(a), ops=[ast.Lt()], comparators=[copy.deepcopy(b)]),
                                                 body=new_body, orelse=[]), st)
    rewrite(fn.body)


class _AugAssign(ast.NodeTransformer):
    """N5: `x = x + k` / `x = x - k` with a numeric constant k is `x += k` / `x -= k` (same for every immutable x)."""

    def visit_Assign(self, node: ast.Assign):
        if len(node.targets) == 1 and isinstance(node.targets[0], (ast.Name, ast.Attribute)) and isinstance(node.value, ast.BinOp) and \
                isinstance(node.value.op, (ast.Add, ast.Sub)) and isinstance(node.value.left, (ast.Name, ast.Attribute)) and \
                _simple_target(node.value.left) and ast.unparse(node.value.left) == ast.unparse(node.targets[0]) \
                and isinstance(node.value.right, ast.Constant) and \
                isinstance(node.value.right.value, (int, float)) and not isinstance(node.value.right.value, bool):
            return ast.copy_location(ast.AugAssign(target=node.targets[0], op=node.value.op, value=node.value.right), node)
        return node


# ----------------------------------------------------------------------------------------------------------------- driver
def normalise(mod: ast.Module, newtypes: set[str], fields: dict) -> ast.Module:
    if newtypes:
        mod = _EraseNewType(newtypes).visit(mod)
    for n in ast.walk(mod):
        if isinstance(n, (ast.FunctionDef, ast.AsyncFunctionDef)):
            n.body = _unnest(n.body)
    if fields and fields.get("fields"):
        for n in ast.walk(mod):
            if isinstance(n, (ast.FunctionDef, ast.AsyncFunctionDef)):
                _copy_propagate(n, fields)
    for n in ast.walk(mod):
        if isinstance(n, (ast.FunctionDef, ast.AsyncFunctionDef)):
            _split_tuple_assign(n)
    for n in ast.walk(mod):
        if isinstance(n, (ast.FunctionDef, ast.AsyncFunctionDef)):
            _range_loops(n, fields)
    for n in ast.walk(mod):
        if isinstance(n, (ast.FunctionDef, ast.AsyncFunctionDef)):
            _guarded_equalities(n, fields)
    for n in ast.walk(mod):
        if isinstance(n, (ast.FunctionDef, ast.AsyncFunctionDef)):
            _propagate_paths(n)
            _IGNORE_CALLS[0] = False
    for n in ast.walk(mod):
        if isinstance(n, (ast.FunctionDef, ast.AsyncFunctionDef)):
            _inline_temporaries(n)
    mod = _AugAssign().visit(mod)
    ast.fix_missing_locations(mod)
    return mod


# ----------------------------------------------------------------------------------------------------------------- N4
PURE_CALLS = {"len", "isinstance", "bool", "int", "str", "min", "max", "abs"}


def _access_path(e: ast.expr) -> bool:
    """name(.attr | [simple index or slice])+ — a read of existing state, nothing computed."""
    def simple(x):
        return x is None or isinstance(x, ast.Constant) or _access_path(x) or isinstance(x, ast.Name) or \
            (isinstance(x, ast.UnaryOp) and isinstance(x.op, ast.USub) and isinstance(x.operand, ast.Constant))
    steps = 0
    if isinstance(e, ast.Call) and isinstance(e.func, ast.Name) and e.func.id == "len" and len(e.args) == 1 and not e.keywords:
        return _access_path(e.args[0]) or isinstance(e.args[0], ast.Name)
    while True:
        if isinstance(e, ast.Attribute):
            e = e.value
        elif isinstance(e, ast.Subscript):
            sl = e.slice
            if isinstance(sl, ast.Slice):
                if not (simple(sl.lower) and simple(sl.upper) and sl.step is None):
                    return False
            elif not simple(sl):
                return False
            e = e.value
        else:
            break
        steps += 1
    return steps > 0 and isinstance(e, ast.Name)


def _reads(e: ast.expr) -> set[str]:
    """Access paths (as dotted text) and names an expression reads."""
    out = set()
    for n in ast.walk(e):
        if isinstance(n, ast.Name):
            out.add(n.id)
        elif isinstance(n, ast.Attribute):
            try:
                out.add(ast.unparse(n))
            except Exception:
                pass
    return out


_IGNORE_CALLS = [False]


def _writes_or_calls(st: ast.AST, reads: set[str]) -> bool:
    """May executing `st` change anything in `reads`?  Any call (other than a few pure builtins) may — unless what is read is an
    attribute of an immutable object (a regex match), which no call can change."""
    roots = {r.split(".")[0] for r in reads}
    for n in ast.walk(st):
        if isinstance(n, ast.Call) and not _IGNORE_CALLS[0]:
            f = n.func
            if not (isinstance(f, ast.Name) and f.id in PURE_CALLS):
                return True
        if isinstance(n, (ast.Yield, ast.YieldFrom, ast.Await)):
            return True
        if isinstance(n, (ast.Name, ast.Attribute, ast.Subscript)) and isinstance(getattr(n, "ctx", None), (ast.Store, ast.Del)):
            base = n
            while isinstance(base, (ast.Attribute, ast.Subscript)):
                base = base.value
            if isinstance(base, ast.Name) and base.id in roots:
                return True
    return False


def _propagate_paths(fn) -> None:
    """N4: a local bound once to an access path and used only while nothing it reads can have changed is that access path."""
    stores: dict[str, int] = {}
    for n in _own(fn):
        if isinstance(n, ast.Name) and isinstance(n.ctx, (ast.Store, ast.Del)):
            stores[n.id] = stores.get(n.id, 0) + 1
    params = {a.arg for a in fn.args.posonlyargs + fn.args.args + fn.args.kwonlyargs}
    nested = {n.id for d in _own(fn) if isinstance(d, (ast.FunctionDef, ast.AsyncFunctionDef, ast.Lambda)) for n in ast.walk(d)
              if isinstance(n, ast.Name)}
    changed = True
    while changed:
        changed = False
        for seq in list(_blocks(fn)):
            for i, st in enumerate(seq):
                _IGNORE_CALLS[0] = False
                if not (isinstance(st, ast.Assign) and len(st.targets) == 1 and isinstance(st.targets[0], ast.Name)):
                    continue
                name = st.targets[0].id
                if stores.get(name) != 1 or name in params or name in nested or not _access_path(st.value):
                    continue
                reads = _reads(st.value)
                if name in reads:
                    continue
                # `kind = m.lastgroup` where `m` is bound once to the result of a regex match: match objects are immutable
                root = st.value
                while isinstance(root, (ast.Attribute, ast.Subscript)):
                    root = root.value
                _IGNORE_CALLS[0] = False
                if isinstance(root, ast.Name) and stores.get(root.id) == 1 and isinstance(st.value, ast.Attribute) and \
                        isinstance(st.value.value, ast.Name):
                    defs_ = [a.value for a in _own(fn) if isinstance(a, ast.Assign) and len(a.targets) == 1 and isinstance(a.targets[0], ast.Name)
                             and a.targets[0].id == root.id]
                    defs_ += [a.value for a in _own(fn) if isinstance(a, ast.NamedExpr) and a.target.id == root.id]
                    if len(defs_) == 1 and isinstance(defs_[0], ast.Call) and \
                            (defs_[0].func.attr if isinstance(defs_[0].func, ast.Attribute) else getattr(defs_[0].func, "id", "")) in \
                            ("match", "fullmatch", "search"):
                        _IGNORE_CALLS[0] = True
                uses_all = [n for n in _own(fn) if isinstance(n, ast.Name) and n.id == name and isinstance(n.ctx, ast.Load)]
                if not uses_all:
                    continue
                # walk the rest of the block in order; every use must be met before anything can disturb the reads
                seen: list = []
                ok = True

                def scan(stmts) -> bool:
                    """returns True if clean at the end"""
                    nonlocal ok
                    clean = True
                    for s in stmts:
                        if isinstance(s, ast.If):
                            us = [n for n in ast.walk(s.test) if isinstance(n, ast.Name) and n.id == name]
                            if us and not clean:
                                ok = False
                            seen.extend(us)
                            if _writes_or_calls(s.test, reads):
                                clean_t = False
                            else:
                                clean_t = clean
                            a = scan_from(s.body, clean_t)
                            b = scan_from(s.orelse, clean_t)
                            clean = a and b
                        elif isinstance(s, (ast.For, ast.While, ast.Try, ast.With, ast.Match, ast.AsyncFor, ast.AsyncWith)):
                            us = [n for n in ast.walk(s) if isinstance(n, ast.Name) and n.id == name and isinstance(n.ctx, ast.Load)]
                            dirty_inside = _writes_or_calls(s, reads)
                            if us and (not clean or dirty_inside):
                                ok = False
                            seen.extend(us)
                            clean = clean and not dirty_inside
                        else:
                            us = [n for n in ast.walk(s) if isinstance(n, ast.Name) and n.id == name and isinstance(n.ctx, ast.Load)]
                            if us and not clean:
                                ok = False
                            seen.extend(us)
                            if _writes_or_calls(s, reads):
                                # the statement's own reads of the local happen before its effects only for plain
                                # expression evaluation order; be strict: a statement that both uses and disturbs is refused
                                # unless the disturbance is the statement's final store (x = f(local) is fine for reads of local)
                                if us and any(isinstance(c, ast.Call) and not (isinstance(c.func, ast.Name) and c.func.id in PURE_CALLS)
                                              and not any(u is a0 or any(u is w for w in ast.walk(a0)) for u in us for a0 in
                                                          ([c.func.value] if isinstance(c.func, ast.Attribute) else []) + list(c.args))
                                              for c in ast.walk(s)):
                                    ok = False
                                clean = False
                    return clean

                def scan_from(stmts, clean0) -> bool:
                    if clean0:
                        return scan(stmts)
                    # already dirty: any use inside is fatal
                    nonlocal ok
                    us = [n for s in stmts for n in ast.walk(s) if isinstance(n, ast.Name) and n.id == name and isinstance(n.ctx, ast.Load)]
                    if us:
                        ok = False
                    seen.extend(us)
                    return False

                scan(seq[i + 1:])
                if not ok or len(seen) != len(uses_all) or {id(u) for u in seen} != {id(u) for u in uses_all}:
                    continue
                _replace(fn, name, st)
                stores.pop(name, None)
                changed = True
                break
            if changed:
                break
