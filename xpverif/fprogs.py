"""Shared view of `handle_fstring_progs`: its paths grouped by the delimiter that ended the literal part.

The function is decision code without loops; its path set (pyflow.stmt_paths) is blind to how the three cases (closing quote,
`{`, `}`) are nested, whether the common FSTRING_MIDDLE emission is written once or per branch, and whether the delimiter test is
held in a local flag."""
from __future__ import annotations

import ast
import copy

from .common import AnalysisError, norm_stmt
from .pyflow import Index, own_nodes, stmt_paths

KINDS = ("End", "LBrace", "RBrace")


def _inline_flags(fn: ast.FunctionDef) -> list[ast.stmt]:
    """Locals bound once to a comparison of `endmatch.lastgroup` are replaced by the comparison in every test."""
    flags: dict[str, ast.expr] = {}
    counts: dict[str, int] = {}
    for n in own_nodes(fn):
        if isinstance(n, ast.Assign) and len(n.targets) == 1 and isinstance(n.targets[0], ast.Name):
            counts[n.targets[0].id] = counts.get(n.targets[0].id, 0) + 1
            if isinstance(n.value, ast.Compare) and "lastgroup" in norm_stmt(n.value):
                flags[n.targets[0].id] = n.value
    flags = {k: v for k, v in flags.items() if counts[k] == 1}

    class R(ast.NodeTransformer):
        def visit_Name(self, node):
            if isinstance(node.ctx, ast.Load) and node.id in flags:
                return copy.deepcopy(flags[node.id])
            return node
    body = [R().visit(copy.deepcopy(s)) for s in fn.body]
    return [s for s in body if not (isinstance(s, ast.Assign) and isinstance(s.targets[0], ast.Name) and s.targets[0].id in flags)]


def _kind(conds: dict[str, bool]) -> str | None:
    known: dict[str, bool] = {}
    for text, truth in conds.items():
        for k in KINDS:
            if text in (f"endmatch.lastgroup == '{k}'", f"'{k}' == endmatch.lastgroup"):
                known[k] = truth
            elif text in (f"endmatch.lastgroup != '{k}'", f"'{k}' != endmatch.lastgroup"):
                known[k] = not truth
    yes = [k for k, v in known.items() if v]
    if len(yes) == 1:
        return yes[0]
    if yes:
        return None
    no = {k for k, v in known.items() if not v}
    rest = [k for k in KINDS if k not in no]
    return rest[0] if len(rest) == 1 else None


def delimiter_paths(ix: Index) -> dict[str, list[tuple]]:
    f = ix.get("handle_fstring_progs")
    out: dict[str, list[tuple]] = {k: [] for k in KINDS}
    for p in stmt_paths(_inline_flags(f.node)):
        conds = {x[1]: x[2] for x in p if x[0] == "cond"}
        k = _kind(conds)
        if k is None:
            if p[-1][1] == "return" and not any(x[0] == "do" and "yield" in x[1] for x in p):
                continue  # no delimiter on this line
            raise AnalysisError(f"handle_fstring_progs: a path that emits tokens is not attributed to one delimiter: {conds}")
        out[k].append(p)
    for k in KINDS:
        if not out[k]:
            raise AnalysisError(f"handle_fstring_progs: no path for delimiter {k}")
    return out
