"""Shared view of `handle_fstring_progs`: its paths grouped by the delimiter that ended the literal part.

The function is decision code without loops; its path set (pyflow.stmt_paths) is blind to how the three cases (closing quote,
`{`, `}`) are nested, whether the common FSTRING_MIDDLE emission is written once or per branch, and whether the delimiter test is
held in a local flag."""
from __future__ import annotations

import ast
import copy

from .common import AnalysisError, norm_stmt
from .pyflow import Index, own_nodes, stmt_paths  # noqa: F401

KINDS = ("End", "LBrace", "RBrace")


def _inline_flags(fn: ast.FunctionDef) -> list[ast.stmt]:
    """Locals bound once to a comparison of `endmatch.lastgroup` are replaced by the comparison in every test."""
    flags: dict[str, ast.expr] = {}
    counts: dict[str, int] = {}
    for n in own_nodes(fn):
        if isinstance(n, ast.Assign) and len(n.targets) == 1 and isinstance(n.targets[0], ast.Name):
            counts[n.targets[0].id] = counts.get(n.targets[0].id, 0) + 1
            if isinstance(n.value, ast.Compare) and "lastgroup" in norm_stmt(n.value):
                flags[n.targets[0].id] = n.value
    flags = {k: v for k, v in flags.items() if counts[k] == 1}

    class R(ast.NodeTransformer):
        def visit_Name(self, node):
            if isinstance(node.ctx, ast.Load) and node.id in flags:
                return copy.deepcopy(flags[node.id])
            return node
    body = [R().visit(copy.deepcopy(s)) for s in fn.body]
    return [s for s in body if not (isinstance(s, ast.Assign) and isinstance(s.targets[0], ast.Name) and s.targets[0].id in flags)]


def inline_state_flags(fn: ast.FunctionDef) -> list[ast.stmt]:
    """Locals bound once to a combination of argument-less scanner-state predicates (`state.in_braces() and state.at_parenlev()`)
    are replaced by that combination in every test that uses them (the predicates read the mode stack and the depth; the tests that
    use such a flag come before the branch changes either)."""
    flags: dict[str, ast.expr] = {}
    counts: dict[str, int] = {}

    def predicate(e: ast.expr) -> bool:
        if isinstance(e, ast.BoolOp):
            return all(predicate(v) for v in e.values)
        if isinstance(e, ast.UnaryOp) and isinstance(e.op, ast.Not):
            return predicate(e.operand)
        return isinstance(e, ast.Call) and not e.args and not e.keywords and isinstance(e.func, ast.Attribute) and \
            isinstance(e.func.value, ast.Name) and e.func.value.id == "state"
    for n in own_nodes(fn):
        if isinstance(n, ast.Assign) and len(n.targets) == 1 and isinstance(n.targets[0], ast.Name):
            counts[n.targets[0].id] = counts.get(n.targets[0].id, 0) + 1
            if predicate(n.value):
                flags[n.targets[0].id] = n.value
    flags = {k: v for k, v in flags.items() if counts[k] == 1}
    if not flags:
        return list(fn.body)

    class R(ast.NodeTransformer):
        def visit_If(self, node):
            node.test = T().visit(node.test)
            self.generic_visit(node)
            return node

        def visit_IfExp(self, node):
            node.test = T().visit(node.test)
            self.generic_visit(node)
            return node

    class T(ast.NodeTransformer):
        def visit_Name(self, node):
            if isinstance(node.ctx, ast.Load) and node.id in flags:
                return copy.deepcopy(flags[node.id])
            return node
    body = [R().visit(copy.deepcopy(s)) for s in fn.body]
    out = []
    for s in body:
        if isinstance(s, ast.Assign) and len(s.targets) == 1 and isinstance(s.targets[0], ast.Name) and s.targets[0].id in flags:
            continue
        out.append(s)
    return out


def _kind(conds: dict[str, bool]) -> str | None:
    known: dict[str, bool] = {}
    for text, truth in conds.items():
        for k in KINDS:
            if text in (f"endmatch.lastgroup == '{k}'", f"'{k}' == endmatch.lastgroup"):
                known[k] = truth
            elif text in (f"endmatch.lastgroup != '{k}'", f"'{k}' != endmatch.lastgroup"):
                known[k] = not truth
    yes = [k for k, v in known.items() if v]
    if len(yes) == 1:
        return yes[0]
    if yes:
        return None
    no = {k for k, v in known.items() if not v}
    rest = [k for k in KINDS if k not in no]
    return rest[0] if len(rest) == 1 else None


def delimiter_paths(ix: Index) -> dict[str, list[tuple]]:
    f = ix.get("handle_fstring_progs")
    out: dict[str, list[tuple]] = {k: [] for k in KINDS}
    from .pyflow import propagate_locals
    for p in stmt_paths(_inline_flags(f.node)):
        conds = {x[1]: x[2] for x in propagate_locals(p) if x[0] == "cond"}
        k = _kind(conds)
        if k is None:
            if p[-1][1] == "return" and not any(x[0] == "do" and "yield" in x[1] for x in p):
                continue  # no delimiter on this line
            raise AnalysisError(f"handle_fstring_progs: a path that emits tokens is not attributed to one delimiter: {conds}")
        out[k].append(p)
    for k in KINDS:
        if not out[k]:
            raise AnalysisError(f"handle_fstring_progs: no path for delimiter {k}")
    return out


# ------------------------------------------------------------------------------------------------ mode-stack primitives
def _call_summary(ix: Index, call: ast.Call, depth: int = 0) -> list[str] | None:
    """Primitive effects on the mode stack of `state.<method>(args)` (method of TokenizerState, arguments substituted):
    "pop", "restart(X)" (the enclosing mode, if any, starts a fresh piece of text at X), or None when the method does not touch
    the stack.  Tests on whether an enclosing mode exists are the stack's own business and do not split the summary."""
    if not (isinstance(call.func, ast.Attribute) and isinstance(call.func.value, ast.Name) and call.func.value.id in ("state", "self")):
        return None
    q = f"TokenizerState.{call.func.attr}"
    if q not in ix.funcs or depth > 3:
        return None
    fn = ix.funcs[q].node
    params = [a.arg for a in fn.args.args][1:]
    defaults = dict(zip(params[len(params) - len(fn.args.defaults):], fn.args.defaults))
    args: dict[str, ast.expr] = {}
    for pname, v in zip(params, call.args):
        args[pname] = v
    for k in call.keywords:
        if k.arg:
            args[k.arg] = k.value
    for pname in params:
        if pname not in args:
            if pname not in defaults:
                return None
            args[pname] = defaults[pname]

    class R(ast.NodeTransformer):
        def visit_Name(self, node):
            if isinstance(node.ctx, ast.Load) and node.id in args:
                return copy.deepcopy(args[node.id])
            if node.id == "self":
                return ast.copy_location(ast.Name(id="state", ctx=node.ctx), node)
            return node
    body = [R().visit(copy.deepcopy(s)) for s in fn.body if not (isinstance(s, ast.Expr) and isinstance(s.value, ast.Constant))]
    try:
        paths = stmt_paths(body, split_bool=True)
    except AnalysisError:
        return None
    best: list[str] | None = None
    for p in paths:
        feasible = True
        for x in p:
            if x[0] == "cond":
                t = ast.parse(x[1], mode="eval").body
                if isinstance(t, ast.Constant) and bool(t.value) != x[2]:
                    feasible = False
                if isinstance(t, ast.Tuple) and bool(t.elts) != x[2]:
                    feasible = False
                if x[1] in ("state.end_progs", "len(state.end_progs) > 0", "bool(state.end_progs)") and not x[2]:
                    feasible = False  # nothing encloses: nothing to restart
        if not feasible:
            continue
        eff = primitives(ix, p, depth + 1)
        if best is None or len(eff) > len(best):
            best = eff
    return best if best else None


def primitives(ix: Index, path: tuple, depth: int = 0) -> list[str]:
    """The depth / mode-stack effects along a path, in order, in primitive form."""
    out: list[str] = []
    for x in path:
        if x[0] == "exit" and x[1] in ("return", "raise") and x[2]:
            x = ("do", x[2])
        if x[0] != "do":
            continue
        try:
            tree = ast.parse(x[1])
        except SyntaxError:
            continue
        text = x[1]
        if text.startswith("state.parenlev"):
            out.append(text)
            continue
        for c in ast.walk(tree):
            if not isinstance(c, ast.Call):
                continue
            fn = norm_stmt(c.func)
            if fn in ("state.end_progs.pop", "self.end_progs.pop"):
                out.append("pop")
            elif fn in ("state.end_progs[-1].reset", "self.end_progs[-1].reset") and c.args:
                out.append(f"restart({norm_stmt(c.args[0])})")
            elif fn == "state.add_prog":
                out.append(norm_stmt(c))
            elif fn in ("state.end_progs.append", "self.end_progs.append"):
                out.append(f"push({norm_stmt(c.args[0]) if c.args else ''})")
            else:
                s = _call_summary(ix, c, depth)
                if s:
                    out += s
    return out
