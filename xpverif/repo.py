"""Cached views of the repository under analysis (sources only; nothing from /repo is imported)."""
from __future__ import annotations

import ast
import functools
import os
import token as _token

from . import gramir, pyir
from .common import AnalysisError, parse_py, rpath, read_src

GRAM_X = "tasks/xonsh.gram"
PARSER_X = "peg_parser/parser.py"
GRAM_P = "pegen/metagrammar.gram"
PARSER_P = "pegen/grammar_parser.py"
SUBHEADER = "peg_parser/subheader.py"
TOKENIZE = "peg_parser/tokenize.py"
TOKENIZER = "peg_parser/tokenizer.py"
GENERATOR = "tasks/generator.py"


@functools.lru_cache(None)
def token_enum_names() -> tuple[str, ...]:
    mod = parse_py(TOKENIZE)
    for n in mod.body:
        if isinstance(n, ast.ClassDef) and n.name == "Token":
            names = []
            for s in n.body:
                if isinstance(s, ast.Assign) and len(s.targets) == 1 and isinstance(s.targets[0], ast.Name):
                    names.append(s.targets[0].id)
            if len(names) < 10:
                raise AnalysisError("Token enum has implausibly few members")
            return tuple(names)
    raise AnalysisError("class Token not found in peg_parser/tokenize.py")


@functools.lru_cache(None)
def token_enum_canonical() -> dict:
    """member name -> canonical name (an enum member assigned from another member, `WS = WHITESPACE`, is an alias: looking it up
    by name gives the other member, whose `.name` is the canonical spelling)."""
    mod = parse_py(TOKENIZE)
    out: dict = {}
    for n in mod.body:
        if isinstance(n, ast.ClassDef) and n.name == "Token":
            for s in n.body:
                if isinstance(s, ast.Assign) and len(s.targets) == 1 and isinstance(s.targets[0], ast.Name):
                    nm = s.targets[0].id
                    v = s.value
                    if isinstance(v, ast.Name) and v.id in out:
                        out[nm] = out[v.id]
                    elif isinstance(v, ast.Attribute) and isinstance(v.value, ast.Name) and v.value.id == "Token" and v.attr in out:
                        out[nm] = out[v.attr]
                    else:
                        out[nm] = nm
    return out


@functools.lru_cache(None)
def x_token_names() -> frozenset[str]:
    return frozenset(token_enum_names()) | {"SOFT_KEYWORD", "KEYWORD", "ANY_TOKEN"}


@functools.lru_cache(None)
def p_token_names() -> frozenset[str]:
    return frozenset(_token.tok_name.values()) | {"SOFT_KEYWORD", "FSTRING_START", "FSTRING_MIDDLE", "FSTRING_END"}


REF_RULES = os.path.join(os.path.dirname(os.path.dirname(os.path.abspath(__file__))), "oracle", "xonsh_rule_sigs.json")


def _sig_key(g, name: str, ren: dict) -> str:
    from . import cpygram

    def rn(sig):
        if isinstance(sig, tuple):
            if len(sig) == 2 and sig[0] == "ref" and isinstance(sig[1], str):
                return ("ref", ren.get(sig[1], sig[1]))
            return tuple(rn(x) for x in sig)
        if isinstance(sig, list):
            return [rn(x) for x in sig]
        return sig
    return repr(rn(cpygram.rule_sig(g.rules[name])))


def restore_rule_names(g):
    """A grammar rule given a new name everywhere is the same rule: a rule of the reference tree (oracle/xonsh_rule_sigs.json,
    name -> structure, written by tools/mkrefnames.py) that is missing is looked for among the rules the reference tree does not
    have, by structure with the new name read as the old one; a unique match gets its old name back (definition and references).
    What the renamed rule *does* is then judged by the rules as for any other edit."""
    import json
    if not os.path.exists(REF_RULES):
        return g
    ref = json.load(open(REF_RULES))
    missing = [n for n in ref if n not in g.rules]
    fresh = [n for n in g.rules if n not in ref and not g.rules[n].helper]
    if not missing or not fresh:
        return g
    ren: dict[str, str] = {}
    for m in missing:
        cands = [n for n in fresh if n not in ren and _sig_key(g, n, {n: m}) == ref[m]]
        if len(cands) == 1:
            ren[cands[0]] = m
    if not ren:
        return g
    from .ir import Ref, walk_alt_items
    for new, old in ren.items():
        r = g.rules.pop(new)
        r.name = old
        g.rules[old] = r
    for coll in (g.rules, g.helpers):
        for r in coll.values():
            for a in r.alts:
                for it in walk_alt_items(a):
                    if isinstance(it, Ref) and it.name in ren:
                        it.name = ren[it.name]
                if a.action is not None:
                    for n in ast.walk(a.action):
                        if isinstance(n, ast.Attribute) and n.attr in ren and isinstance(n.value, ast.Name) and n.value.id == "self":
                            n.attr = ren[n.attr]
    g.metas["renamed_rules"] = dict(ren)
    return g


@functools.lru_cache(None)
def gram_x():
    read_src(GRAM_X)
    return restore_rule_names(gramir.read_grammar(rpath(GRAM_X), GRAM_X, set(x_token_names())))


@functools.lru_cache(None)
def gram_p():
    read_src(GRAM_P)
    return gramir.read_grammar(rpath(GRAM_P), GRAM_P, set(p_token_names()))


@functools.lru_cache(None)
def py_x():
    read_src(PARSER_X)
    return restore_rule_names(pyir.decompile(rpath(PARSER_X), PARSER_X, "X"))


@functools.lru_cache(None)
def py_p():
    read_src(PARSER_P)
    return pyir.decompile(rpath(PARSER_P), PARSER_P, "P")


def ir_x():
    """IR of the parser that actually runs; a decompile failure is an analysis error for everyone but C16."""
    try:
        return py_x()
    except pyir.DecompileError as e:
        from .common import GeneratedShapeViolation
        where = f"{getattr(e, 'file', PARSER_X)}:{getattr(e, 'line', 0)}"
        raise GeneratedShapeViolation(str(e), where, f"{getattr(e, 'file', PARSER_X)}:{getattr(e, 'method', '') or 'module'}")


def find_class(mod: ast.Module, name: str) -> ast.ClassDef:
    for n in mod.body:
        if isinstance(n, ast.ClassDef) and n.name == name:
            return n
    raise AnalysisError(f"class {name} not found")


def find_func(scope, name: str):
    body = scope.body
    for n in body:
        if isinstance(n, (ast.FunctionDef, ast.AsyncFunctionDef)) and n.name == name:
            return n
    raise AnalysisError(f"function {name} not found in {getattr(scope, 'name', 'module')}")


def maybe_func(scope, name: str):
    for n in scope.body:
        if isinstance(n, (ast.FunctionDef, ast.AsyncFunctionDef)) and n.name == name:
            return n
    return None


@functools.lru_cache(None)
def emitted_token_kinds() -> frozenset[str]:
    """Token kinds the tokenizer can construct: every `Token.X` mentioned in tokenize.py / tokenizer.py
    outside a comparison (comparisons only *test* a kind)."""
    out: set[str] = set()
    for rel in (TOKENIZE, TOKENIZER):
        mod = parse_py(rel)
        in_compare: set[int] = set()
        for n in ast.walk(mod):
            if isinstance(n, ast.Compare):
                for sub in ast.walk(n):
                    in_compare.add(id(sub))
        for n in ast.walk(mod):
            if isinstance(n, ast.Attribute) and isinstance(n.value, ast.Name) and n.value.id == "Token" \
                    and id(n) not in in_compare:
                out.add(n.attr)
    if "NAME" not in out or "OP" not in out:
        raise AnalysisError("could not find the token kinds the tokenizer emits")
    return frozenset(out)


def never_emitted_token_kinds() -> frozenset[str]:
    return frozenset(token_enum_names()) - emitted_token_kinds()
