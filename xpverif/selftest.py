"""E9: mutant runner.  Each mutant is a small text edit applied to a scratch copy of /repo (created under a
temporary directory outside /repo and /verif and removed afterwards); the named check must report a violation
(breaking mutants) or stay silent (benign mutants).  Also replays the seeded changes kept under /verif/seeded/."""
from __future__ import annotations

import concurrent.futures
import json
import os
import py_compile
import shutil
import subprocess
import sys
import tempfile
import time

from .common import REPO, VERIF

COPY_DIRS = ("peg_parser", "pegen", "tasks")
COPY_FILES = ("setup.py", "Taskfile.yml", "pyproject.toml")


def make_copy(dst: str):
    os.makedirs(dst, exist_ok=True)
    for d in COPY_DIRS:
        shutil.copytree(os.path.join(REPO, d), os.path.join(dst, d), ignore=shutil.ignore_patterns("__pycache__", "*.pyc"))
    for f in COPY_FILES:
        if os.path.exists(os.path.join(REPO, f)):
            shutil.copy(os.path.join(REPO, f), os.path.join(dst, f))


def apply_edits(root: str, edits) -> None:
    for rel, old, new in edits:
        p = os.path.join(root, rel)
        s = open(p, encoding="utf-8").read()
        if s.count(old) != 1:
            raise RuntimeError(f"mutant edit does not apply exactly once in {rel}: {old[:50]!r} ({s.count(old)}x)")
        open(p, "w", encoding="utf-8").write(s.replace(old, new))
        if rel.endswith(".py"):
            py_compile.compile(p, cfile=os.path.join(root, ".pyc_check"), doraise=True)


def apply_patch(root: str, patch_path: str) -> None:
    subprocess.run(["git", "init", "-q"], cwd=root, check=True, capture_output=True)
    r = subprocess.run(["git", "apply", "--whitespace=nowarn", patch_path], cwd=root, capture_output=True, text=True)
    if r.returncode != 0:
        r = subprocess.run(["git", "apply", "--whitespace=nowarn", "-C1", patch_path], cwd=root, capture_output=True, text=True)
    if r.returncode != 0:
        # the code around the edit has moved (repairs made since the seed was written): same edit, fuzzy context
        r = subprocess.run(["patch", "-p1", "-F3", "-s", "--no-backup-if-mismatch", "-i", patch_path], cwd=root, capture_output=True, text=True)
    if r.returncode != 0:
        raise RuntimeError(f"patch does not apply: {(r.stderr or r.stdout)[:300]}")


RUNTIME_FILES = ("peg_parser/subheader.py", "peg_parser/tokenizer.py", "peg_parser/tokenize.py", "peg_parser/parser.py")


def transform_unparse(root: str):
    """Formatting round trip: comments, blank lines, redundant parentheses and string quoting all change."""
    import ast
    for rel in RUNTIME_FILES:
        p = os.path.join(root, rel)
        src = open(p, encoding="utf-8").read()
        out = ast.unparse(ast.parse(src))
        if src.startswith("from __future__"):
            pass
        open(p, "w", encoding="utf-8").write(out + "\n")
        py_compile.compile(p, cfile=os.path.join(root, ".pyc_check"), doraise=True)


def transform_rename_locals(root: str):
    """Consistent renaming of function-local variables (not parameters, not names shared with nested functions)."""
    import ast

    class Ren(ast.NodeTransformer):
        def __init__(self, names):
            self.names = names

        def visit_Name(self, node):
            if node.id in self.names:
                node.id = node.id + "_r"
            return node

        def visit_FunctionDef(self, node):
            return node  # nested functions are handled on their own

        visit_Lambda = visit_FunctionDef

    def own(fn):
        todo = list(fn.body)
        while todo:
            n = todo.pop()
            yield n
            if isinstance(n, (ast.FunctionDef, ast.Lambda, ast.ClassDef)):
                continue
            todo.extend(ast.iter_child_nodes(n))

    for rel in RUNTIME_FILES[:3]:
        p = os.path.join(root, rel)
        mod = ast.parse(open(p, encoding="utf-8").read())
        for fn in [n for n in ast.walk(mod) if isinstance(n, ast.FunctionDef)]:
            params = {a.arg for a in fn.args.args + fn.args.kwonlyargs + fn.args.posonlyargs}
            if fn.args.vararg:
                params.add(fn.args.vararg.arg)
            if fn.args.kwarg:
                params.add(fn.args.kwarg.arg)
            stored = {n.id for n in own(fn) if isinstance(n, ast.Name) and isinstance(n.ctx, ast.Store)}
            nested_uses = {x.id for n in own(fn) if isinstance(n, (ast.FunctionDef, ast.Lambda)) for x in ast.walk(n) if isinstance(x, ast.Name)}
            glob = {x for n in own(fn) if isinstance(n, (ast.Global, ast.Nonlocal)) for x in n.names}
            comp_targets = set()
            names = stored - params - nested_uses - glob
            r = Ren(names)
            fn.body = [r.visit(st) if not isinstance(st, ast.FunctionDef) else st for st in fn.body]
        open(p, "w", encoding="utf-8").write(ast.unparse(mod) + "\n")
        py_compile.compile(p, cfile=os.path.join(root, ".pyc_check"), doraise=True)


def transform_reorder_methods(root: str):
    """Reverse the order of the methods of every class (and of the generated rule methods): positions change, nothing else."""
    import ast
    for rel in RUNTIME_FILES:
        p = os.path.join(root, rel)
        mod = ast.parse(open(p, encoding="utf-8").read())
        for cls in [n for n in mod.body if isinstance(n, ast.ClassDef)]:
            if any(isinstance(b, ast.ClassDef) for b in cls.body) or cls.name in ("Token", "TokenInfo", "Target", "ModeMiddle", "ModeInBraces", "ModeInColon", "EndProg"):
                continue
            idx = [i for i, b in enumerate(cls.body) if isinstance(b, ast.FunctionDef)]
            funcs = [cls.body[i] for i in idx][::-1]
            for i, f in zip(idx, funcs):
                cls.body[i] = f
        open(p, "w", encoding="utf-8").write(ast.unparse(mod) + "\n")
        py_compile.compile(p, cfile=os.path.join(root, ".pyc_check"), doraise=True)


TRANSFORMS = {"unparse": transform_unparse, "rename-locals": transform_rename_locals, "reorder-methods": transform_reorder_methods}


def run_check(pid: str, root: str, work: str, tier: str = "quick") -> tuple[int, str]:
    env = dict(os.environ)
    env.update({"VERIF_REPO": root, "VERIF_OUT": os.path.join(work, "out"), "VERIF_EVIDENCE_DIR": os.path.join(work, "evidence"),
                "PYTHONHASHSEED": "0", "PYTHONDONTWRITEBYTECODE": "1"})
    r = subprocess.run([sys.executable, "-m", "xpverif.cli", pid, "--tier", tier], cwd=VERIF, env=env, capture_output=True, text=True,
                       timeout=600)
    return r.returncode, r.stdout + r.stderr


def run_one(m: dict) -> dict:
    t0 = time.time()
    work = tempfile.mkdtemp(prefix="xpverif-selftest-")
    root = os.path.join(work, "repo")
    res = {"name": m["name"], "property": m["property"], "expect": m["expect"]}
    try:
        make_copy(root)
        if "patch" in m:
            apply_patch(root, m["patch"])
        elif "transform" in m:
            TRANSFORMS[m["transform"]](root)
        else:
            apply_edits(root, m["edits"])
        outs = {}
        for pid in m.get("checks", [m["property"]]):
            code, out = run_check(pid, root, work, m.get("tier", "quick"))
            outs[pid] = (code, [l for l in out.splitlines() if l.startswith(("  FAIL", "VIOLATION", "ANALYSIS-ERROR"))][:4])
        res["results"] = outs
        codes = [c for c, _ in outs.values()]
        if m["expect"] == "violation":
            res["ok"] = any(c == 1 for c in codes)
            if "mention" in m and res["ok"]:
                res["ok"] = any(m["mention"] in l for _, ls in outs.values() for l in ls)
        else:
            res["ok"] = all(c == 0 for c in codes)
    except Exception as e:  # a mutant that does not apply is a broken self-test, reported as such
        res["ok"] = False
        res["error"] = f"{type(e).__name__}: {e}"
    finally:
        shutil.rmtree(work, ignore_errors=True)
    res["wall_s"] = round(time.time() - t0, 2)
    return res


def load_mutants() -> list[dict]:
    from .mutants import MUTANTS
    from .mutants2 import MUTANTS2
    from .mutants3 import MUTANTS3
    from .mutants4 import MUTANTS4
    out = list(MUTANTS) + list(MUTANTS2) + list(MUTANTS3) + list(MUTANTS4)
    allp = ["C%02d" % i for i in range(1, 19)]
    out.append({"name": "benign-global-unparse-roundtrip", "property": "ALL", "transform": "unparse", "expect": "silent", "checks": allp})
    out.append({"name": "benign-global-rename-locals", "property": "ALL", "transform": "rename-locals", "expect": "silent", "checks": allp})
    out.append({"name": "benign-global-reorder-methods", "property": "ALL", "transform": "reorder-methods", "expect": "silent", "checks": allp})
    seeded = os.path.join(VERIF, "seeded")
    if os.path.isdir(seeded):
        for d in sorted(os.listdir(seeded)):
            meta = os.path.join(seeded, d, "meta.json")
            patch = os.path.join(seeded, d, "patch.diff")
            if os.path.exists(meta) and os.path.exists(patch):
                m = json.load(open(meta))
                if m.get("caught_by") and m.get("applies_to_current_tree", True):
                    out.append({"name": f"seeded/{d}", "property": m["property"], "patch": patch, "expect": "violation",
                                "checks": m["caught_by"]})
    # behaviour-preserving refactorings written by independent agents (each verified by them with the test suite and a
    # differential run over >1000 inputs): every check must stay silent
    benign = os.path.join(VERIF, "benign")
    if os.path.isdir(benign):
        for d in sorted(os.listdir(benign)):
            patch = os.path.join(benign, d, "patch.diff")
            if os.path.exists(patch):
                out.append({"name": f"benign-agent/{d}", "property": "ALL", "patch": patch, "expect": "silent", "checks": allp})
    return out


def main(tier: str = "quick", only: str = "") -> int:
    muts = load_mutants()
    if only:
        muts = [m for m in muts if only in m["name"] or only == m["property"]]
    t0 = time.time()
    with concurrent.futures.ThreadPoolExecutor(max_workers=min(16, os.cpu_count() or 4)) as ex:
        results = list(ex.map(run_one, muts))
    bad = [r for r in results if not r["ok"]]
    for r in results:
        tag = "ok  " if r["ok"] else "BAD "
        print(f"{tag}{r['property']:4} {r['expect']:9} {r['name']}" + (f"  {r.get('error', '')} {r.get('results', '')}" if not r["ok"] else ""))
    print(f"selftest: {len(results)} mutants, {len(results) - len(bad)} as expected, {len(bad)} not; {round(time.time() - t0, 1)}s")
    os.makedirs(os.path.join(VERIF, "out"), exist_ok=True)
    json.dump(results, open(os.path.join(VERIF, "out", "selftest.json"), "w"), indent=1)
    return 0 if not bad else 1


if __name__ == "__main__":
    sys.exit(main(only=sys.argv[1] if len(sys.argv) > 1 else ""))
