"""Shared rule: the helper that maps a token to the physical lines it lies on, and the loops that consume it.

A token's `line` holds every physical line the token lies on (C08 L2).  Two consumers need the text of *each* line: the
per-line cache behind SyntaxError.text in string mode (C11/C12) and the with-macro block capture (C07).  Both must walk all
the lines of a multi-line token — a consumer that looks only at `tok.start[0]`/`tok.line` loses the interior lines of a
triple-quoted string.  The helper is decided by finite-domain evaluation against its specification, the consumers by the shape
"for (number, text) in <helper>(tok): store if absent"."""
from __future__ import annotations

import ast
import types
from typing import Optional

from . import constfold, repo
from .common import AnalysisError, Check, norm_stmt
from .pyflow import Index, own_nodes

HELPER_CASES = [
    # (line, start, end) -> expected [(number, text)]
    (("x = '''a\nb\nc''' + 1\n", (3, 4), (5, 4)), [(3, "x = '''a\n"), (4, "b\n"), (5, "c''' + 1\n")]),
    (("x = 1\n", (7, 0), (7, 1)), [(7, "x = 1\n")]),
    (("last", (2, 0), (2, 4)), [(2, "last")]),
    # form feeds and other str.splitlines separators are ordinary characters of a line
    (("a = 1 \x0c# page\n", (6, 0), (6, 1)), [(6, "a = 1 \x0c# page\n")]),
    (("s = \'\'\'a\x0c\nb\x0bc\nd\'\'\'\n", (3, 4), (5, 4)), [(3, "s = \'\'\'a\x0c\n"), (4, "b\x0bc\n"), (5, "d\'\'\'\n")]),
    (("", (9, 0), (9, 0)), []),
    # `line` not aligned with the span (synthetic tokens): only the first line is trusted
    (("f!(a +\n", (1, 3), (2, 3)), [(1, "f!(a +\n")]),
    (("a\nb\nc\n", (4, 0), (4, 1)), [(4, "a\n")]),
]


def find_helper(ix: Index) -> Optional[str]:
    """The Tokenizer method whose result the line-cache fill in `peek` iterates as (number, text) pairs."""
    # the fill lives in `peek` or in a method it delegates the fetching to: `peek` first, then the other Tokenizer methods that
    # write the line cache
    cands = [ix.funcs.get("Tokenizer.peek")] + [f for q, f in sorted(ix.funcs.items()) if f.cls == "Tokenizer" and f.node.name != "peek"
                                                 and "self._lines" in norm_stmt(f.node)]
    for pk in cands:
        if pk is None:
            continue
        defs: dict[str, list[ast.expr]] = {}
        for n in own_nodes(pk.node):
            if isinstance(n, ast.Assign) and len(n.targets) == 1 and isinstance(n.targets[0], ast.Name):
                defs.setdefault(n.targets[0].id, []).append(n.value)
        for n in own_nodes(pk.node):
            if isinstance(n, ast.For) and isinstance(n.target, ast.Tuple) and len(n.target.elts) == 2:
                it = n.iter
                if isinstance(it, ast.Name) and len(defs.get(it.id, [])) == 1:
                    it = defs[it.id][0]
                if isinstance(it, ast.Call) and isinstance(it.func, ast.Attribute) and norm_stmt(it.func.value) in ("self", "Tokenizer", "type(self)") \
                        and f"Tokenizer.{it.func.attr}" in ix.funcs:
                    return f"Tokenizer.{it.func.attr}"
    return None


def rule_helper(chk: Check, ix: Index, rule_id: str) -> Optional[str]:
    q = find_helper(ix)
    chk.count(rule_id)
    if q is None:
        chk.fail(rule_id, "Tokenizer:physical-lines-helper", repo.TOKENIZER,
                 "nothing maps a token to all the physical lines it lies on: consumers that look at `tok.start[0]` / `tok.line` only lose the "
                 "interior lines of a multi-line string (wrong SyntaxError.text in string mode, with-macro bodies missing lines)")
        return None
    f = ix.get(q)
    param = [a.arg for a in f.node.args.args if a.arg not in ("self", "cls")][0]
    bad = []
    for (line, start, end), want in HELPER_CASES:
        tok = types.SimpleNamespace(line=line, start=start, end=end)
        try:
            got = constfold.eval_pure_function(f.node, {param: tok}, data_attrs=("line", "start", "end"))
            got = [tuple(x) for x in got]
        except (constfold.PureEvalError, TypeError) as e:
            chk.undecided(rule_id, f"{q}:spec", f.where, f"helper outside the evaluable subset: {e}")
            return q
        if got != want:
            bad.append(((line, start, end), got))
    chk.require(not bad, rule_id, f"{q}:spec", f.where,
                f"`{q}` must return (number, text) for every physical line of the token, numbered from its start line, and only the "
                f"first one when `line` is not aligned with the span; differs on {bad[:2]}")
    return q


def consumer_loops(fn: ast.FunctionDef, helper: str):
    name = helper.split(".")[-1]
    # locals bound once to the helper's result stand for it
    defs: dict[str, list[ast.expr]] = {}
    for n in own_nodes(fn):
        if isinstance(n, ast.Assign) and len(n.targets) == 1 and isinstance(n.targets[0], ast.Name):
            defs.setdefault(n.targets[0].id, []).append(n.value)
    for n in own_nodes(fn):
        if not (isinstance(n, ast.For) and isinstance(n.target, ast.Tuple) and len(n.target.elts) == 2
                and all(isinstance(e, ast.Name) for e in n.target.elts)):
            continue
        it = n.iter
        if isinstance(it, ast.Name) and len(defs.get(it.id, [])) == 1:
            it = defs[it.id][0]
        if isinstance(it, ast.Call) and norm_stmt(it.func).endswith(name):
            yield n, n.target.elts[0].id, n.target.elts[1].id
