"""E6: function index, syntactic call graph and per-function statement CFG for the runtime modules."""
from __future__ import annotations

import ast
from dataclasses import dataclass, field
from typing import Callable, Iterable, Iterator, Optional

from . import repo
from .common import AnalysisError, norm_stmt, parse_py

RUNTIME_MODULES = (repo.SUBHEADER, repo.TOKENIZER, repo.TOKENIZE)


@dataclass
class Func:
    qual: str  # module-relative qualified name, e.g. Parser.parse, Tokenizer.peek, _tokenize, memoize.memoize_wrapper
    rel: str
    node: ast.FunctionDef
    cls: Optional[str] = None
    parent: Optional[str] = None

    @property
    def where(self) -> str:
        return f"{self.rel}:{self.node.lineno}"


class Index:
    def __init__(self, modules: Iterable[str] = RUNTIME_MODULES):
        self.funcs: dict[str, Func] = {}
        self.by_name: dict[str, list[Func]] = {}
        self.classes: dict[str, tuple[str, ast.ClassDef]] = {}
        self.modules = {rel: parse_py(rel) for rel in modules}
        for rel, mod in self.modules.items():
            self._scan(mod.body, rel, None, None)

    def _scan(self, body, rel, cls, parent):
        for n in body:
            if isinstance(n, (ast.FunctionDef, ast.AsyncFunctionDef)):
                qual = ".".join(x for x in (parent or cls, n.name) if x)
                f = Func(qual, rel, n, cls, parent)
                self.funcs[qual] = f
                self.by_name.setdefault(n.name, []).append(f)
                self._scan(n.body, rel, cls, qual)
            elif isinstance(n, ast.ClassDef) and parent is None:
                self.classes[n.name] = (rel, n)
                self._scan(n.body, rel, n.name, None)
            elif isinstance(n, (ast.If, ast.Try, ast.With)) and parent is None and cls is None:
                for sub in ast.iter_child_nodes(n):
                    pass

    def get(self, qual: str) -> Func:
        if qual not in self.funcs:
            raise AnalysisError(f"anchor function vanished: {qual}")
        return self.funcs[qual]

    # ------------------------------------------------------------ calls
    def callees(self, f: Func) -> set[str]:
        """Syntactic resolution: self.m() -> same class (or Parser for its subclasses); obj.m() -> every
        function of that method name in the runtime modules; name() -> module-level / nested function."""
        out: set[str] = set()
        for n in own_nodes(f.node):
            if not isinstance(n, ast.Call):
                continue
            fn = n.func
            if isinstance(fn, ast.Name):
                for c in self.by_name.get(fn.id, []):
                    if c.cls is None:
                        out.add(c.qual)
                if fn.id in self.classes:  # constructor
                    init = f"{fn.id}.__init__"
                    if init in self.funcs:
                        out.add(init)
            elif isinstance(fn, ast.Attribute):
                if isinstance(fn.value, ast.Name) and fn.value.id in ("self", "cls") and f.cls:
                    q = f"{f.cls}.{fn.attr}"
                    if q in self.funcs:
                        out.add(q)
                        continue
                for c in self.by_name.get(fn.attr, []):
                    if c.cls is not None:
                        out.add(c.qual)
        # nested functions are reachable from their parent
        for q, g in self.funcs.items():
            if g.parent == f.qual:
                out.add(q)
        return out

    def reachable(self, roots: Iterable[str]) -> set[str]:
        seen: set[str] = set()
        todo = list(roots)
        while todo:
            q = todo.pop()
            if q in seen or q not in self.funcs:
                continue
            seen.add(q)
            todo.extend(self.callees(self.funcs[q]))
        return seen


def own_nodes(fn: ast.AST) -> Iterator[ast.AST]:
    """Nodes of a function body excluding nested function/class bodies."""
    todo = list(ast.iter_child_nodes(fn))
    while todo:
        n = todo.pop()
        yield n
        if isinstance(n, (ast.FunctionDef, ast.AsyncFunctionDef, ast.ClassDef, ast.Lambda)):
            continue
        todo.extend(ast.iter_child_nodes(n))


# ---------------------------------------------------------------- CFG
@dataclass
class CNode:
    id: int
    kind: str  # entry exit stmt test loop raise return
    stmt: Optional[ast.AST] = None
    label: str = ""
    succ: list = field(default_factory=list)  # (target id, edge label)

    @property
    def line(self) -> int:
        return getattr(self.stmt, "lineno", 0)


class CFG:
    """Statement-level control-flow graph.  Edge labels: "", "T", "F", "exc"."""

    def __init__(self, fn: ast.FunctionDef):
        self.fn = fn
        self.nodes: list[CNode] = []
        self.entry = self._new("entry")
        self.exit = self._new("exit")  # normal return / fall-off
        self.raise_exit = self._new("raise")  # exceptional exit
        ends = self._seq(fn.body, [self.entry.id], None)
        self._link(ends, self.exit.id)

    def _new(self, kind, stmt=None, label="") -> CNode:
        n = CNode(len(self.nodes), kind, stmt, label)
        self.nodes.append(n)
        return n

    def _edge(self, a: int, b: int, label: str = ""):
        self.nodes[a].succ.append((b, label))

    def _seq(self, stmts, preds: list, loop) -> list:
        """Wires preds -> stmts; returns the list of dangling node ids after the sequence.
        preds entries are node ids or (id, label) pairs."""
        cur = preds
        for st in stmts:
            cur = self._stmt(st, cur, loop)
            if not cur:
                break
        return cur

    def _link(self, preds, target: int):
        for p in preds:
            if isinstance(p, tuple):
                self._edge(p[0], target, p[1])
            else:
                self._edge(p, target)

    def _stmt(self, st, preds, loop) -> list:
        if isinstance(st, ast.If):
            t = self._new("test", st, norm_stmt(st.test))
            self._link(preds, t.id)
            a = self._seq(st.body, [(t.id, "T")], loop)
            b = self._seq(st.orelse, [(t.id, "F")], loop) if st.orelse else [(t.id, "F")]
            return a + b
        if isinstance(st, (ast.While, ast.For, ast.AsyncFor)):
            h = self._new("loop", st, norm_stmt(st.test) if isinstance(st, ast.While) else norm_stmt(st.iter))
            self._link(preds, h.id)
            ctx = {"head": h.id, "breaks": []}
            body_end = self._seq(st.body, [(h.id, "T")], ctx)
            self._link(body_end, h.id)
            infinite = isinstance(st, ast.While) and isinstance(st.test, ast.Constant) and st.test.value is True
            out = [] if infinite else [(h.id, "F")]
            if st.orelse:
                out = self._seq(st.orelse, out, loop)
            return out + ctx["breaks"]
        if isinstance(st, ast.Break):
            n = self._new("stmt", st, "break")
            self._link(preds, n.id)
            loop["breaks"].append(n.id)
            return []
        if isinstance(st, ast.Continue):
            n = self._new("stmt", st, "continue")
            self._link(preds, n.id)
            self._edge(n.id, loop["head"])
            return []
        if isinstance(st, ast.Return):
            n = self._new("return", st, norm_stmt(st))
            self._link(preds, n.id)
            self._edge(n.id, self.exit.id)
            return []
        if isinstance(st, ast.Raise):
            n = self._new("raise", st, norm_stmt(st))
            self._link(preds, n.id)
            self._edge(n.id, self.raise_exit.id)
            return []
        if isinstance(st, ast.Try):
            # body; any statement of the body may jump to each handler
            start = len(self.nodes)
            body_end = self._seq(st.body, preds, loop)
            body_nodes = list(range(start, len(self.nodes)))
            outs = []
            if st.orelse:
                body_end = self._seq(st.orelse, body_end, loop)
            outs += body_end
            for h in st.handlers:
                hn = self._new("stmt", h, "except " + (norm_stmt(h.type) if h.type else ""))
                for b in body_nodes:
                    self._edge(b, hn.id, "exc")
                self._link(preds, hn.id) if not body_nodes else None
                outs += self._seq(h.body, [hn.id], loop)
            if st.finalbody:
                outs = self._seq(st.finalbody, outs, loop)
            return outs
        if isinstance(st, (ast.With, ast.AsyncWith)):
            n = self._new("stmt", st, "with " + ", ".join(norm_stmt(i.context_expr) for i in st.items))
            self._link(preds, n.id)
            return self._seq(st.body, [n.id], loop)
        if isinstance(st, (ast.FunctionDef, ast.AsyncFunctionDef, ast.ClassDef)):
            n = self._new("stmt", st, f"def {st.name}")
            self._link(preds, n.id)
            return [n.id]
        n = self._new("stmt", st, norm_stmt(st))
        self._link(preds, n.id)
        return [n.id]

    # ------------------------------------------------------------ queries
    def find(self, pred: Callable[[CNode], bool]) -> list[CNode]:
        return [n for n in self.nodes if pred(n)]

    def reach(self, starts: Iterable[int], avoid: Iterable[int] = (), edge_ok: Optional[Callable] = None) -> set[int]:
        """Nodes reachable from `starts` (exclusive of starts unless looped back) without entering `avoid`."""
        avoid = set(avoid)
        seen: set[int] = set()
        todo = []
        for s in starts:
            for t, lab in self.nodes[s].succ:
                if edge_ok is None or edge_ok(s, t, lab):
                    todo.append(t)
        while todo:
            v = todo.pop()
            if v in seen or v in avoid:
                continue
            seen.add(v)
            for t, lab in self.nodes[v].succ:
                if edge_ok is None or edge_ok(v, t, lab):
                    todo.append(t)
        return seen

    def must_pass(self, start: int, targets: Iterable[int], through: Iterable[int]) -> bool:
        """Every path from `start` to any of `targets` passes through one of `through`."""
        r = self.reach([start], avoid=through)
        return not (set(targets) & r)


def stmt_calls(st: ast.AST) -> list[ast.Call]:
    return [n for n in ast.walk(st) if isinstance(n, ast.Call)]


def call_name(c: ast.Call) -> str:
    return norm_stmt(c.func)


# ----------------------------------------------------------------------------------------------------------------- path sets
def stmt_paths(stmts: list[ast.stmt], limit: int = 4000, opaque_loops: bool = False, split_bool: bool = False) -> set[tuple]:
    """All paths through a loop-free statement list as tuples of
        ("cond", text, truth) | ("do", text) | ("exit", kind, text)
    with kind in return / raise / continue / break / end.  `not` is folded into the truth value, constant tests are
    decided, nested loops/try/with raise AnalysisError (callers use this on straight-line decision code only).
    Two functions with equal path sets take the same decisions and perform the same effects in the same order — the
    comparison is blind to if/else nesting, early returns and `elif` vs separate `if`s."""
    from .common import AnalysisError, norm_stmt
    out: set[tuple] = set()

    def lit(test, truth):
        while isinstance(test, ast.UnaryOp) and isinstance(test.op, ast.Not):
            test, truth = test.operand, not truth
        return test, truth

    def cases(test, truth):
        """The ways `test` can come out as `truth`, each a list of atomic ("cond", text, truth) facts (short-circuit order)."""
        test, truth = lit(test, truth)
        if split_bool and isinstance(test, ast.BoolOp):
            conj = isinstance(test.op, ast.And)
            if conj == truth:
                # all operands agree with `truth`
                res = [[]]
                for v in test.values:
                    res = [a + b for a in res for b in cases(v, truth)]
                return res
            # the first operand that decides, the ones before it the other way
            res = []
            prefix = [[]]
            for v in test.values:
                res += [a + b for a in prefix for b in cases(v, truth)]
                prefix = [a + b for a in prefix for b in cases(v, not truth)]
            return res
        return [[("cond", norm_stmt(test), truth)]]

    def run(seq, acc):
        if len(out) > limit:
            raise AnalysisError("too many paths")
        for i, st in enumerate(seq):
            if isinstance(st, ast.Expr) and isinstance(st.value, ast.Constant):
                continue
            if isinstance(st, ast.Pass):
                continue
            if isinstance(st, ast.If):
                test, truth = lit(st.test, True)
                rest = seq[i + 1:]
                if isinstance(test, ast.Constant):
                    run((st.body if bool(test.value) == truth else st.orelse) + rest, acc)
                    return
                if split_bool:
                    for c in cases(test, truth):
                        run(st.body + rest, acc + c)
                    for c in cases(test, not truth):
                        run(st.orelse + rest, acc + c)
                    return
                run(st.body + rest, acc + [("cond", norm_stmt(test), truth)])
                run(st.orelse + rest, acc + [("cond", norm_stmt(test), not truth)])
                return
            if isinstance(st, ast.Return):
                out.add(tuple(acc + [("exit", "return", norm_stmt(st.value) if st.value is not None else "None")]))
                return
            if isinstance(st, ast.Raise):
                out.add(tuple(acc + [("exit", "raise", norm_stmt(st.exc) if st.exc is not None else "")]))
                return
            if isinstance(st, ast.Continue):
                out.add(tuple(acc + [("exit", "continue", "")]))
                return
            if isinstance(st, ast.Break):
                out.add(tuple(acc + [("exit", "break", "")]))
                return
            if isinstance(st, ast.Try) and not st.handlers and not st.orelse:
                # try/finally without handlers: the body, then the clean-up (a return inside the body ends the path there)
                run(st.body + st.finalbody + seq[i + 1:], acc)
                return
            if opaque_loops and isinstance(st, (ast.For, ast.While)):
                # a nested loop as one step (its own break/continue are its own business)
                head = f"for {norm_stmt(st.target)} in {norm_stmt(st.iter)}: ..." if isinstance(st, ast.For) else f"while {norm_stmt(st.test)}: ..."
                acc = acc + [("do", head)]
                continue
            if isinstance(st, (ast.For, ast.AsyncFor, ast.While, ast.Try, ast.With, ast.AsyncWith, ast.Match)):
                raise AnalysisError(f"stmt_paths: compound statement {type(st).__name__} at line {st.lineno}")
            acc = acc + [("do", norm_stmt(st))]
        out.add(tuple(acc + [("exit", "end", "")]))

    run(list(stmts), [])
    return out


def path_conds(p: tuple) -> dict[str, bool]:
    return {x[1]: x[2] for x in p if x[0] == "cond"}


def path_effects(p: tuple) -> list[str]:
    return [x[1] for x in p if x[0] == "do"]


def path_exit(p: tuple) -> tuple[str, str]:
    return p[-1][1], p[-1][2]


def propagate_locals(p: tuple, keep: tuple = ()) -> tuple:
    """Path-local copy propagation: along one path, a plain local bound to an arithmetic expression over names, attribute chains
    and constants (`end = start + 1`) is replaced by that expression in the later steps of the path, until it or something it
    reads is re-bound.  The binding step itself is dropped.  Makes "name a sub-expression" / "re-bind a parameter" invisible to
    rules that compare the effects on a path."""
    from .common import norm_stmt
    env: dict[str, ast.expr] = {}

    def simple(e) -> bool:
        for n in ast.walk(e):
            if not isinstance(n, (ast.BinOp, ast.Name, ast.Constant, ast.Attribute, ast.operator, ast.expr_context, ast.UnaryOp, ast.unaryop)):
                return False
        return True

    class Sub(ast.NodeTransformer):
        def visit_Name(self, node):
            if isinstance(node.ctx, ast.Load) and node.id in env:
                import copy
                return copy.deepcopy(env[node.id])
            return node

    def subst(text: str, mode: str) -> str:
        if not env:
            return text
        try:
            tree = ast.parse(text, mode=mode)
        except SyntaxError:
            return text
        return norm_stmt(Sub().visit(tree))

    def kill(names: set[str]):
        for k in list(env):
            if k in names or any(isinstance(n, ast.Name) and n.id in names for n in ast.walk(env[k])):
                del env[k]

    out = []
    for x in p:
        if x[0] == "do":
            try:
                st = ast.parse(x[1]).body[0]
            except SyntaxError:
                out.append(x)
                continue
            if isinstance(st, ast.Assign) and len(st.targets) == 1 and isinstance(st.targets[0], ast.Name) and st.targets[0].id not in keep:
                val = Sub().visit(st.value)
                kill({st.targets[0].id})
                if simple(val) and not any(isinstance(n, ast.Name) and n.id == st.targets[0].id for n in ast.walk(val)):
                    env[st.targets[0].id] = val
                    continue
                out.append(("do", norm_stmt(ast.Assign(targets=st.targets, value=val, lineno=0))))
                continue
            new = subst(x[1], "exec")
            stored = {n.id for n in ast.walk(st) if isinstance(n, ast.Name) and isinstance(n.ctx, (ast.Store, ast.Del))}
            if isinstance(st, ast.AugAssign) and isinstance(st.target, ast.Name):
                stored.add(st.target.id)
                new = x[1] if st.target.id in env else new
            kill(stored)
            out.append(("do", new))
        elif x[0] == "cond":
            out.append(("cond", subst(x[1], "eval"), x[2]))
        elif x[0] == "exit" and x[2]:
            out.append(("exit", x[1], subst(x[2], "eval")))
        else:
            out.append(x)
    return tuple(out)
