"""Shared plumbing: repository access, obligations, known findings, evidence, exit codes."""
from __future__ import annotations

import ast
import json
import os
import sys
import time
import traceback
from dataclasses import dataclass, field
from typing import Any, Callable, Optional

VERIF = os.path.dirname(os.path.dirname(os.path.abspath(__file__)))
REPO = os.environ.get("VERIF_REPO", "/repo")
OUT = os.environ.get("VERIF_OUT", os.path.join(VERIF, "out"))
EVID = os.environ.get("VERIF_EVIDENCE_DIR", os.path.join(VERIF, "evidence"))
KNOWN = os.path.join(VERIF, "known_findings.json")


class AnalysisError(Exception):
    """The analysis itself is broken (anchor vanished, unsupported construct): exit 2, never a pass."""


def rpath(rel: str) -> str:
    return os.path.join(REPO, rel)


_src_cache: dict[str, str] = {}
_ast_cache: dict[str, ast.Module] = {}


def read_src(rel: str) -> str:
    if rel not in _src_cache:
        p = rpath(rel)
        if not os.path.exists(p):
            raise AnalysisError(f"anchor file vanished: {rel}")
        with open(p, encoding="utf-8") as f:
            _src_cache[rel] = f.read()
    return _src_cache[rel]


_facts: Optional[tuple] = None


def _normal_facts() -> tuple:
    """(NewType names, immutable NamedTuple fields) of the hand-written modules — inputs of the normal form (normalise.py)."""
    global _facts
    if _facts is None:
        from . import localnames, normalise
        mods = {}
        for rel in localnames.FILES:
            try:
                mods[rel] = ast.parse(read_src(rel), filename=rel)
            except (SyntaxError, OSError, AnalysisError):
                continue
        _facts = (normalise.newtype_names(mods), normalise.immutable_fields(mods))
    return _facts


def parse_py(rel: str) -> ast.Module:
    if rel not in _ast_cache:
        try:
            mod = ast.parse(read_src(rel), filename=rel)
        except SyntaxError as e:
            raise AnalysisError(f"{rel} does not parse: {e}")
        from . import localnames, normalise
        if rel in localnames.FILES:
            from . import helpers
            mod = helpers.apply(rel, mod)
            mod = normalise.normalise(mod, *_normal_facts())
        _ast_cache[rel] = localnames.canonicalise(rel, mod)
    return _ast_cache[rel]


def norm_stmt(node: ast.AST) -> str:
    """Normalised statement/expression text used in construct keys (never line numbers)."""
    try:
        return " ".join(ast.unparse(node).split())
    except Exception:
        return type(node).__name__


@dataclass
class Obligation:
    rule: str
    key: str
    status: str  # ok | fail | undecided
    where: str
    detail: str = ""


@dataclass
class Finding:
    rule: str
    key: str
    where: str
    detail: str


class Check:
    def __init__(self, pid: str, tier: str = "quick", level: str = "other"):
        self.pid, self.tier, self.level = pid, tier, level
        self.t0 = time.time()
        self.obs: list[Obligation] = []
        self.counts: dict[str, int] = {}
        self.floors: dict[str, int] = {}
        self.units: dict[str, Any] = {}
        self.assumptions: list[str] = []
        self.trusted: list[str] = []
        self.explanation = ""
        self.samples_extra: list[Any] = []
        self.extra_cov: dict[str, Any] = {}
        self.notes: list[str] = []

    # ------------------------------------------------------------ obligations
    def ok(self, rule: str, key: str, where: str = "", detail: str = ""):
        self.obs.append(Obligation(rule, key, "ok", where, detail))

    def fail(self, rule: str, key: str, where: str, detail: str):
        self.obs.append(Obligation(rule, key, "fail", where, detail))

    def undecided(self, rule: str, key: str, where: str, detail: str):
        self.obs.append(Obligation(rule, key, "undecided", where, detail))

    def require(self, cond: bool, rule: str, key: str, where: str, detail: str):
        if cond:
            self.ok(rule, key, where)
        else:
            self.fail(rule, key, where, detail)
        return cond

    def count(self, name: str, n: int = 1):
        self.counts[name] = self.counts.get(name, 0) + n

    def floor(self, name: str, minimum: int):
        """Instance floor: a rule that matches fewer sites than confirmed by hand is a broken analysis."""
        self.floors[name] = minimum

    def note(self, s: str):
        self.notes.append(s)

    # ------------------------------------------------------------ finishing
    def finish(self) -> int:
        unmet = [f"instance floor not met for {name}: {self.counts.get(name, 0)} < {minimum} "
                 f"(the rule no longer sees the sites it was written for)"
                 for name, minimum in self.floors.items() if self.counts.get(name, 0) < minimum]
        known = load_known()
        fails = [o for o in self.obs if o.status == "fail"]
        # a concrete violation is reported as such even when some rule lost its sites; an unmet floor alone is a broken
        # analysis (exit 2), never a pass
        if unmet and not any(match_known(known, self.pid, o.rule, o.key) is None for o in fails):
            raise AnalysisError(unmet[0])
        self.notes.extend(unmet)
        violations: list[Obligation] = []
        known_hits: list[tuple[Obligation, dict]] = []
        for o in fails:
            k = match_known(known, self.pid, o.rule, o.key)
            if k is not None:
                known_hits.append((o, k))
            else:
                violations.append(o)
        seen_k = set()
        for o, k in known_hits:
            ident = (o.rule, o.key)
            if ident in seen_k:
                continue
            seen_k.add(ident)
            print(f"KNOWN-FINDING: property={self.pid} rule={o.rule} {o.key} — {k.get('what', o.detail)} [{o.where}]")
        os.makedirs(OUT, exist_ok=True)
        os.makedirs(EVID, exist_ok=True)
        report_path = os.path.join(OUT, f"{self.pid}.{self.tier}.report.json")
        report = {
            "property": self.pid, "tier": self.tier, "repo": REPO,
            "violations": [o.__dict__ for o in violations],
            "known_findings": [dict(o.__dict__, finding=k.get("id")) for o, k in known_hits],
            "undecided": [o.__dict__ for o in self.obs if o.status == "undecided"],
            "counts": self.counts, "notes": self.notes,
        }
        with open(report_path, "w") as f:
            json.dump(report, f, indent=1, default=str)
        for o in violations:
            print(f"  FAIL {self.pid}/{o.rule} {o.key} at {o.where}: {o.detail}")
        n_ob = len(self.obs)
        n_ok = sum(1 for o in self.obs if o.status == "ok")
        n_und = sum(1 for o in self.obs if o.status == "undecided")
        samples = [{"rule": o.rule, "obligation": o.key, "where": o.where, "status": o.status}
                   for o in _spread(self.obs, 12)] + self.samples_extra[:12]
        distinct = len({(o.rule, o.key) for o in self.obs})
        cov = {
            "explanation": self.explanation,
            "obligations": n_ob, "discharged": n_ok, "undecided": n_und,
            "known_findings": len(seen_k), "failed_unlisted": len(violations),
            "evaluations": max(n_ob, 1), "distinct_nontrivial": max(distinct, 0),
            "rule": "one obligation per (rule, syntactic site) enumerated from the current /repo sources; "
                    "distinct = distinct (rule, construct-key) pairs; all are non-trivial in that each names a "
                    "concrete construct that is inspected",
            "samples": samples or [{"note": "no obligations"}],
            "exhaustive": True,
            "per_rule_counts": self.counts, "instance_floors": self.floors,
            "analysed": self.units, "trusted_base": self.trusted,
            "checker_cmd": f"./check {self.pid} --tier {self.tier}",
        }
        cov.update(self.extra_cov)
        ev = {
            "property_id": self.pid, "tier": self.tier,
            "seed": int(os.environ.get("VERIF_SEED", "0") or 0),
            "level": self.level, "coverage": cov, "assumptions": self.assumptions,
            "wall_s": round(time.time() - self.t0, 3), "violations": len(violations),
        }
        with open(os.path.join(EVID, f"{self.pid}.json"), "w") as f:
            json.dump(ev, f, indent=1, default=str)
        print(f"{self.pid} [{self.tier}]: {n_ob} obligations, {n_ok} discharged, {n_und} undecided, "
              f"{len(seen_k)} known findings, {len(violations)} violations; {ev['wall_s']}s")
        if violations:
            print(f"VIOLATION property={self.pid} replay={report_path}")
            return 1
        return 0


def _spread(xs: list, n: int) -> list:
    if len(xs) <= n:
        return xs
    step = len(xs) / n
    return [xs[int(i * step)] for i in range(n)]


def load_known() -> list[dict]:
    if not os.path.exists(KNOWN):
        return []
    with open(KNOWN) as f:
        data = json.load(f)
    return data.get("findings", [])


def match_known(known: list[dict], pid: str, rule: str, key: str) -> Optional[dict]:
    for k in known:
        if k.get("status", "known") != "known":
            continue  # `fixed` entries suppress nothing
        if pid in k.get("properties", [k.get("property")]) and k.get("rule") == rule \
                and key in k.get("keys", [k.get("key")]):
            return k
    return None


class GeneratedShapeViolation(Exception):
    """The shipped parser module is not what the generator emits (a hand edit of generated code).  Every property that is
    established on the grammar-level reading of the parser is void for such a module: reported as a violation, with the place."""

    def __init__(self, msg: str, where: str, key: str):
        super().__init__(msg)
        self.where, self.key = where, key


def run_check(pid: str, fn: Callable[[Check], None], tier: str, level: str = "other") -> int:
    chk = Check(pid, tier, level)
    try:
        try:
            fn(chk)
        except GeneratedShapeViolation as e:
            chk.count("G1-generated-shape")
            chk.fail("G1-generated-shape", e.key, e.where,
                     f"the shipped parser is not of the shape the generator emits here ({e}): the method was edited by hand, so what the "
                     f"grammar says no longer describes what runs — this property cannot hold by construction for a parser that is not "
                     f"the translation of its grammar")
            chk.floors = {}
        return chk.finish()
    except AnalysisError as e:
        print(f"ANALYSIS-ERROR property={pid}: {e}")
        return 2
    except Exception as e:  # any crash of the analysis is a broken run, not a violation
        name = type(e).__name__
        print(f"ANALYSIS-ERROR property={pid}: {name}: {e}")
        traceback.print_exc()
        return 2
