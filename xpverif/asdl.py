"""E4: schema oracle taken from the running interpreter's `ast` module (the ASDL docstrings),
operator spelling tables from ast._Unparser, keyword and token tables from the stdlib."""
from __future__ import annotations

import ast
import functools
import keyword
import re
import token as _token
from dataclasses import dataclass
from typing import Optional


@dataclass(frozen=True)
class Field:
    name: str
    type: str  # expr, stmt, identifier, int, string, constant, expr_context, operator, ...
    opt: bool
    seq: bool


_SIG = re.compile(r"^(\w+)\((.*)\)$", re.S)


@functools.lru_cache(None)
def signature(cls_name: str) -> Optional[tuple[Field, ...]]:
    cls = getattr(ast, cls_name, None)
    if cls is None or not isinstance(cls, type) or not issubclass(cls, ast.AST):
        return None
    doc = (cls.__doc__ or "").strip()
    m = _SIG.match(doc)
    fields = []
    if m and m.group(1) == cls_name:
        body = m.group(2).strip()
        if body:
            for part in body.split(","):
                t, n = part.strip().split()
                fields.append(Field(n, t.rstrip("?*"), t.endswith("?"), t.endswith("*")))
    else:
        # classes without a product/sum signature (Load, Add, ...) have no fields
        if cls._fields:
            return None
    if tuple(f.name for f in fields) != tuple(cls._fields):
        return None
    return tuple(fields)


def attributes(cls_name: str) -> tuple[str, ...]:
    return tuple(getattr(ast, cls_name)._attributes)


def is_node_class(name: str) -> bool:
    c = getattr(ast, name, None)
    return isinstance(c, type) and issubclass(c, ast.AST)


def is_subclass(name: str, base: str) -> bool:
    c, b = getattr(ast, name, None), getattr(ast, base, None)
    return isinstance(c, type) and isinstance(b, type) and issubclass(c, b)


def concrete_subclasses(base: str) -> list[str]:
    b = getattr(ast, base)
    out = []
    for n in dir(ast):
        c = getattr(ast, n)
        if isinstance(c, type) and issubclass(c, b) and c is not b and not c.__subclasses__():
            out.append(n)
    return sorted(out)


# ---- operator spelling tables (class name -> source spelling)
_FROZEN_BINOP = {"Add": "+", "Sub": "-", "Mult": "*", "MatMult": "@", "Div": "/", "Mod": "%", "LShift": "<<",
                 "RShift": ">>", "BitOr": "|", "BitXor": "^", "BitAnd": "&", "FloorDiv": "//", "Pow": "**"}
_FROZEN_UNOP = {"Invert": "~", "Not": "not", "UAdd": "+", "USub": "-"}
_FROZEN_CMP = {"Eq": "==", "NotEq": "!=", "Lt": "<", "LtE": "<=", "Gt": ">", "GtE": ">=", "Is": "is",
               "IsNot": "is not", "In": "in", "NotIn": "not in"}
_FROZEN_BOOL = {"And": "and", "Or": "or"}


def _table(attr: str, frozen: dict) -> dict:
    u = getattr(ast, "_Unparser", None)
    t = getattr(u, attr, None) if u else None
    if isinstance(t, dict) and t:
        return dict(t)
    return dict(frozen)


BINOP = _table("binop", _FROZEN_BINOP)
UNOP = _table("unop", _FROZEN_UNOP)
CMPOP = _table("cmpops", _FROZEN_CMP)
BOOLOP = _table("boolops", _FROZEN_BOOL)

KWLIST = tuple(keyword.kwlist)
SOFTKWLIST = tuple(keyword.softkwlist)
EXACT_TOKEN_TYPES = dict(_token.EXACT_TOKEN_TYPES)

# fields that bind (Store) / delete (Del); every other expr-typed field is a Load position
BINDING_FIELDS = {
    ("Assign", "targets"): "Store", ("AugAssign", "target"): "Store", ("AnnAssign", "target"): "Store",
    ("For", "target"): "Store", ("AsyncFor", "target"): "Store", ("comprehension", "target"): "Store",
    ("NamedExpr", "target"): "Store", ("withitem", "optional_vars"): "Store", ("TypeAlias", "name"): "Store",
    ("Delete", "targets"): "Del",
}
# structural children that inherit the parent's context
CTX_CHILDREN = {"Tuple": ("elts",), "List": ("elts",), "Starred": ("value",)}
