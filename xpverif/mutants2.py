"""Self-test mutants for C05–C10 (see mutants.py for the format)."""
from __future__ import annotations

from .mutants import G, GRAM, M, PARS, SUB, TKR, TKZ

ALLP = ["C%02d" % i for i in range(1, 19)]

MUTANTS2 = [
    # ------------------------------------------------------------------ C05
    M("c05-env-lookup-attr", "C05",
      [(SUB, 'value=load_attribute_chain("__xonsh__.env", **locs),\n            slice=ast.Constant(value=name.string, **locs),',
        'value=load_attribute_chain("__xonsh__.environ", **locs),\n            slice=ast.Constant(value=name.string, **locs),')], mention="H1"),
    M("c05-env-expr-no-str", "C05", [(SUB, 'slice=xonsh_call("str", slices, **locs),', "slice=slices,")], mention="H1"),
    M("c05-help-swapped", "C05",
      [(SUB, 'fn = "superhelp" if tok.is_exact_type("??") else "help"', 'fn = "help" if tok.is_exact_type("??") else "superhelp"')], mention="H1"),
    M("c05-search-path-span-lost", "C05",
      [(SUB, 'return xonsh_call("__xonsh__.pathsearch", ast.Constant(value=a.string, **locs), **locs)',
        'return xonsh_call("__xonsh__.pathsearch", ast.Constant(value=a.string, **locs), **a.loc())')], expect="silent"),
    M("c05-env-name-span-from-name-token", "C05",
      [(SUB, "            slice=ast.Constant(value=name.string, **locs),\n            ctx=ctx,\n            **locs,\n        )",
        "            slice=ast.Constant(value=name.string, **locs),\n            ctx=ctx,\n            **name.loc(),\n        )")], mention="H3"),
    M("c05-env-atom-moved-out-of-primary", "C05",
      [(GRAM, "    | &('$(' | '$[' | '![' | '!(') ~ sub_procs\n    | env_atom\n", "    | &('$(' | '$[' | '![' | '!(') ~ sub_procs\n"),
       (PARS, "        if env_atom := self.env_atom():\n            return env_atom\n        self._reset(mark)\n        if a := self.gathered(self.help_atom",
        "        if a := self.gathered(self.help_atom")], mention="H2"),
    # ------------------------------------------------------------------ C06
    M("c06-bracket-method-swapped", "C06",
      G('self.handle_proc("subproc_uncaptured", args, LOCATIONS)', 'self.handle_proc("subproc_captured", args, LOCATIONS)',
        'return self.handle_proc("subproc_uncaptured", args, **self.span(_lnum, _col))',
        'return self.handle_proc("subproc_captured", args, **self.span(_lnum, _col))'), mention="P1"),
    M("c06-glue-order-reversed", "C06",
      [(SUB, "return ast.Constant(value=tree.value + cmd.string, **locs, **cmd.loc_end())",
        "return ast.Constant(value=cmd.string + tree.value, **locs, **cmd.loc_end())")], mention="P4"),
    M("c06-adjacency-line-ignored", "C06",
      [(SUB, "        end = prev.end if isinstance(prev, TokenInfo) else (prev.end_lineno, prev.end_col_offset)",
        "        end = prev.end if isinstance(prev, TokenInfo) else (prev.lineno, prev.end_col_offset)")], mention="P2"),
    M("c06-last-word-dropped", "C06", [(SUB, "        if stash:\n            yield stash\n\n    def proc_args", "        return\n\n    def proc_args")],
      mention="P2"),
    M("c06-ws-kept", "C06", [(TKR, "        if tok.type in {Token.NL, Token.COMMENT, Token.WS}:", "        if tok.type in {Token.NL, Token.COMMENT}:")],
      mention="P3"),
    M("c06-shift-own-start", "C06",
      G("| a=cmd_group { ast.Constant(value=a, LOCATIONS) }", "| a=cmd_group { self.proc_macro_arg(a, LOCATIONS) }",
        "        if a := self.cmd_group():\n            return ast.Constant(value=a, **self.span(_lnum, _col))",
        "        if a := self.cmd_group():\n            return self.proc_macro_arg(a, **self.span(_lnum, _col))"), mention="P2-adjusted"),
    # ------------------------------------------------------------------ C07
    M("c07-token-not-appended", "C07",
      [(TKR, "            else:\n                string += tok.string\n", "            elif tok.type != Token.WS:\n                string += tok.string\n")],
      mention="M1"),
    M("c07-end-parens-table", "C07", [(TKR, '            "]": "[",', '            "]": "(",')], mention="M2"),
    M("c07-macro-params-filtered", "C07",
      [(SUB, "elts=[ast.Constant(value=param.string, **param.loc()) for param in b], ctx=Load, **locs",
        "elts=[ast.Constant(value=param.string, **param.loc()) for param in b if param.string], ctx=Load, **locs")], mention="M4"),
    M("c07-no-strip", "C07", [(SUB, "for tok in a).strip()", "for tok in a)")], mention="M4"),
    M("c07-call-macro-flag-not-reset", "C07",
      [(TKR, "                    self._stack.append(tok)\n                    self._call_macro = False\n",
        "                    self._stack.append(tok)\n")], mention="M3"),
    # ------------------------------------------------------------------ C08
    M("c08-comment-end-off-by-one", "C08",
      [(TKZ, "(state.lnum, state.pos + len(comment_token)),", "(state.lnum, state.pos + len(comment_token) + 1),")], mention="L1"),
    M("c08-indent-start", "C08",
      [(TKZ, "Token.INDENT, state.line[: state.pos], (state.lnum, 0), (state.lnum, state.pos), state.line",
        "Token.INDENT, state.line[: state.pos], (state.lnum, 1), (state.lnum, state.pos), state.line")], mention="L1"),
    M("c08-join-without-advance", "C08", [(TKZ, "        endprog.join(self, end)\n        self.pos = end\n", "        endprog.join(self, end)\n")],
      mention="L2"),
    M("c08-dedent-without-pop", "C08", [(TKZ, "        state.indents = state.indents[:-1]\n\n", "\n")], mention="L4"),
    M("c08-errortoken-width", "C08", [(TKZ, "                    (state.lnum, state.pos + 1),\n                    state.line,\n                )\n                state.pos += 1",
                                       "                    (state.lnum, state.pos + 2),\n                    state.line,\n                )\n                state.pos += 1")],
      mention="L1"),
    # ------------------------------------------------------------------ C09
    M("c09-decnumber-loosened", "C09",
      [(TKZ, 'Decnumber = r"(?:0(?:_?0)*|[1-9](?:_?[0-9])*)"', 'Decnumber = r"(?:0(?:_?[0-9])*|[1-9](?:_?[0-9])*)"')], mention="K1"),
    M("c09-op-removed", "C09", [(TKZ, '    "->",\n', "")], mention="K2"),
    M("c09-special-not-sorted", "C09", [(TKZ, "sorted(OPS, reverse=True)", "sorted(OPS)")], mention="K2"),
    M("c09-new-python-spelled-op", "C09", [(TKZ, '    ">&",  # stream combine\n', '    ">&",  # stream combine\n    "<-",\n')], mention="K3"),
    M("c09-tab-stop", "C09", [(TKZ, "column = (column // tabsize + 1) * tabsize", "column += tabsize")], mention="K4"),
    M("c09-tabsize", "C09", [(TKZ, "tabsize = 8", "tabsize = 4")], mention="K4"),
    M("c09-single-quote-body", "C09", [(TKZ, "    \"'\": r\"(?:[^'\\\\]|\\\\.)*'\",", "    \"'\": r\"(?:[^'\\\\\\n]|\\\\.)*'\",")], mention="K1"),
    M("c09-benign-capturing-group", "C09", [(TKZ, 'Hexnumber = r"0[xX](?:_?[0-9a-fA-F])+"', 'Hexnumber = r"0[xX](_?[0-9a-fA-F])+"')],
      expect="silent"),
    M("c09-name-before-number", "C09", [(TKZ, "    Number=Number,\n    Special=Special,\n    Name=Name,\n", "    Name=Name,\n    Number=Number,\n    Special=Special,\n")],
      mention="K3"),
    # ------------------------------------------------------------------ C10
    M("c10-conversion-accepts-more", "C10",
      [(SUB, 'if len(s) > 1 or s not in ("s", "r", "a"):', 'if len(s) > 1 or s not in ("s", "r", "a", "d"):')], mention="F4"),
    M("c10-brace-depth-not-raised", "C10",
      [(TKZ, "            state.parenlev += 1\n            state.add_prog(end, end, mode=ModeInBraces(state.parenlev))",
        "            state.add_prog(end, end, mode=ModeInBraces(state.parenlev))")], mention="F3"),
    M("c10-one-pop-only", "C10", [(TKZ, "            state.pop_mode()  # in-colon\n", "")], mention="F3"),
    M("c10-middle-without-end", "C10",
      [(TKZ, "pattern = choice(LBrace=StartLBrace, End=endpats[quote])", "pattern = choice(LBrace=StartLBrace)")], mention="F1"),
    # ------------------------------------------------------------------ C01 combinators
    M("c01-lookahead-no-reset", "C01", [(SUB, "        mark = self._mark()\n        ok = func(*args)\n        self._reset(mark)\n        return ok\n",
                                         "        ok = func(*args)\n        return ok\n")], mention="R-combinators"),
    M("c01-seed-growth-strict", "C01", [(SUB, "                if endmark <= lastmark:", "                if endmark < lastmark:")], mention="R-combinators"),
    M("c01-name-accepts-keywords", "C01", [(SUB, "        if tok.type == Token.NAME and tok.string not in self.KEYWORDS:", "        if tok.type == Token.NAME:")],
      mention="R-combinators"),
    M("c01-blank-keeps-comments", "C01", [(TKR, "        if tok.type in {Token.NL, Token.COMMENT, Token.WS}:", "        if tok.type in {Token.NL, Token.WS}:")],
      mention="R-combinators"),
    M("c01-repeated-no-reset", "C01", [(SUB, "            mark = self._mark()\n        self._reset(mark)\n        return children", "            mark = self._mark()\n        return children")],
      mention="R-combinators"),
    M("c01-benign-leaf-rename-restructure", "C01",
      [(SUB, "    def soft_keyword(self) -> TokenInfo | None:\n        tok = self._tokenizer.peek()\n        if tok.type == Token.NAME and tok.string in self.SOFT_KEYWORDS:\n            return self._tokenizer.getnext()\n        return None",
        "    def soft_keyword(self) -> TokenInfo | None:\n        t = self._tokenizer.peek()\n        if not (t.type == Token.NAME and t.string in self.SOFT_KEYWORDS):\n            return None\n        return self._tokenizer.getnext()")],
      expect="silent", checks=["C01", "C02", "C03"]),
    # ------------------------------------------------------------------ benign refactors: every check must stay silent
    M("benign-rename-scan-snapshot", "C03",
      [(TKZ, "            pos = state.pos\n            yield from handle_end_progs(state)", "            before = state.pos\n            yield from handle_end_progs(state)"),
       (TKZ, "            elif pos == state.pos:", "            elif before == state.pos:")], expect="silent", checks=["C03", "C08"]),
    M("benign-env-chain-in-local", "C05",
      [(SUB, "        return ast.Subscript(\n            value=load_attribute_chain(\"__xonsh__.env\", **locs),\n            slice=ast.Constant(value=name.string, **locs),",
        "        env = load_attribute_chain(\"__xonsh__.env\", **locs)\n        return ast.Subscript(\n            value=env,\n            slice=ast.Constant(value=name.string, **locs),")],
      expect="silent", checks=["C05", "C04", "C01", "C02"]),
    M("benign-init-reordered", "C13",
      [(TKR, "        self._call_macro = False\n        self._with_macro = False\n        self._proc_macro = False\n",
        "        self._proc_macro = False\n        self._with_macro = False\n        self._call_macro = False\n")],
      expect="silent", checks=["C13", "C14", "C07", "C03"]),
    M("benign-flag-reset-moved-earlier", "C14",
      [(SUB, "        gblcall = xonsh_call(\"globals\", **locs)\n        loccall = xonsh_call(\"locals\", **locs)\n        body = ast.Constant(value=b.string, **b.loc())\n        a.context_expr = xonsh_call(\"__xonsh__.enter_macro\", a.context_expr, body, gblcall, loccall, **locs)\n        self._tokenizer._with_macro = False\n",
        "        self._tokenizer._with_macro = False\n        gblcall = xonsh_call(\"globals\", **locs)\n        loccall = xonsh_call(\"locals\", **locs)\n        body = ast.Constant(value=b.string, **b.loc())\n        a.context_expr = xonsh_call(\"__xonsh__.enter_macro\", a.context_expr, body, gblcall, loccall, **locs)\n")],
      expect="silent", checks=["C14", "C07", "C13", "C04"]),
    M("benign-new-unused-rule", "C16",
      [(GRAM, "interactive[ast.Interactive]: a=statement_newline { ast.Interactive(body=a) }",
        "interactive[ast.Interactive]: a=statement_newline { ast.Interactive(body=a) }\nnoop_stmt: 'pass' { ast.Pass(LOCATIONS) }"),
       (PARS, "    def eval(self) -> ast.Expression | None:",
        "    def noop_stmt(self) -> Any | None:\n        # noop_stmt: 'pass'\n        mark = self._mark()\n        _lnum, _col = self._tokenizer.peek().start\n        if self.expect(\"pass\"):\n            return ast.Pass(**self.span(_lnum, _col))\n        self._reset(mark)\n        return None\n\n    def eval(self) -> ast.Expression | None:")],
      expect="silent", checks=["C16", "C01", "C02", "C04", "C18", "C05"]),
    M("benign-macro-scanner-rename", "C07",
      [(TKR, "                string = tok.string\n            else:\n                string += tok.string\n", "                string = tok.string\n            else:\n                string = string + tok.string\n")],
      expect="silent", checks=["C07", "C03"]),
    M("benign-error-args-one-tuple", "C11",
      [(SUB, "        args = (self.filename, start[0], start[1] + 1, line)\n        args += (end[0], end[1] + 1)  # type: ignore\n\n        return SyntaxError(message, args)",
        "        args = (self.filename, start[0], start[1] + 1, line, end[0], end[1] + 1)\n\n        return SyntaxError(message, args)")],
      expect="silent", checks=["C11"]),
    M("benign-open-keyword-order", "C12",
      [(SUB, 'with open(path, encoding="utf-8") as f:', 'with open(path, mode="r", encoding="UTF-8") as f:')], expect="silent", checks=["C12"]),
    M("benign-verbose-extra-print", "C15",
      [(TKR, "        if self._verbose:\n            self.report(cached, False)\n        return tok", "        if self._verbose:\n            self.report(cached, False)\n            print(repr(tok))\n        return tok")],
      expect="silent", checks=["C15"]),
    M("benign-ops-reordered", "C09", [(TKZ, '    "!=",\n    "%",\n', '    "%",\n    "!=",\n')], expect="silent", checks=["C09", "C02", "C08"]),
    # ------------------------------------------------------------------ C03 (regular expressions)
    M("c03-searchpath-exponential", "C03",
      [(TKZ, 'SearchPath = r"([rgpf]+|@\\w*)?`([^\\n`\\\\]*(?:\\\\.[^\\n`\\\\]*)*)`"',
        'SearchPath = r"([rgpf]+|@\\w*)?`((?:[^\\n`]|\\\\.)*)`"')], mention="T4"),
    M("c03-searchpath-equivalent-rewrite", "C03",
      [(TKZ, 'SearchPath = r"([rgpf]+|@\\w*)?`([^\\n`\\\\]*(?:\\\\.[^\\n`\\\\]*)*)`"',
        'SearchPath = r"([rgpf]+|@\\w*)?`((?:[^\\n`\\\\]|\\\\.)*)`"')], expect="silent"),
    M("c10-colon-entry-exact-match", "C10",
      [(TKZ, 'elif token[0] == ":" and state.in_braces() and state.at_parenlev():', 'elif token == ":" and state.in_braces() and state.at_parenlev():')],
      mention="F7"),
    M("c10-colon-spec-starts-at-colon", "C10",
      [(TKZ, "state.add_prog(start + 1, start + 1, mode=ModeInColon(state.parenlev)", "state.add_prog(start, start + 1, mode=ModeInColon(state.parenlev)")],
      mention="F3"),
    # ------------------------------------------------------------------ C02 sibling grammar: order of alternatives
    M("c02-is-before-isnot", "C02",
      [(GRAM, "    | isnot_bitwise_or\n    | is_bitwise_or\n", "    | is_bitwise_or\n    | isnot_bitwise_or\n"),
       (PARS, "in_bitwise_or | isnot_bitwise_or | is_bitwise_or\n", "in_bitwise_or | is_bitwise_or | isnot_bitwise_or\n"),
       (PARS, "            self.isnot_bitwise_or,\n            self.is_bitwise_or,\n", "            self.is_bitwise_or,\n            self.isnot_bitwise_or,\n")],
      mention="X7", checks=["C02"]),
    M("benign-disjoint-alternatives-swapped", "C02",
      [(GRAM, "    | eq_bitwise_or\n    | noteq_bitwise_or\n", "    | noteq_bitwise_or\n    | eq_bitwise_or\n"),
       (PARS, "# compare_op_bitwise_or_pair: eq_bitwise_or | noteq_bitwise_or |", "# compare_op_bitwise_or_pair: noteq_bitwise_or | eq_bitwise_or |"),
       (PARS, "            self.eq_bitwise_or,\n            self.noteq_bitwise_or,\n", "            self.noteq_bitwise_or,\n            self.eq_bitwise_or,\n")],
      expect="silent", checks=["C02", "C01", "C16", "C18"]),
    # ------------------------------------------------------------------ realistic behaviour-preserving refactorings (all checks must stay silent)
    M("benign-is-blank-last-test-returned", "ALL",
      [(TKR, "        if tok.type == Token.NEWLINE and self._tokens and self._tokens[-1].type == Token.NEWLINE:\n            return True\n        return False\n",
        "        return bool(tok.type == Token.NEWLINE and self._tokens and self._tokens[-1].type == Token.NEWLINE)\n")], expect="silent", checks=ALLP),
    M("benign-getnext-plain-one", "ALL",
      [(TKR, "self._index = Mark(self._index + Mark(1))", "self._index = Mark(self._index + 1)")], expect="silent", checks=ALLP),
    M("benign-peek-lines-local", "ALL",
      [(TKR, "                for lnum, text in self.physical_lines(tok):\n                    self._lines.setdefault(lnum, text)\n",
        "                pairs = self.physical_lines(tok)\n                for lnum, text in pairs:\n                    self._lines.setdefault(lnum, text)\n")],
      expect="silent", checks=ALLP),
    M("benign-token-line-number-local", "ALL",
      [(TKR, "        if len(lines) != tok.end[0] - tok.start[0] + 1:\n            lines = lines[:1]\n        return list(enumerate(lines, tok.start[0]))\n",
        "        first = tok.start[0]\n        if len(lines) != tok.end[0] - first + 1:\n            lines = lines[:1]\n        return list(enumerate(lines, first))\n")],
      expect="silent", checks=ALLP),
    M("c12-cache-only-start-line", "C12",
      [(TKR, "                for lnum, text in self.physical_lines(tok):\n                    self._lines.setdefault(lnum, text)\n",
        "                self._lines.setdefault(tok.start[0], tok.line)\n")], mention="Y3-line-cache", checks=["C11"]),
    M("c08-first-line-recorded-twice", "C08",
      [(TKZ, "        if state.lnum > self.upto:\n", "        if state.lnum >= self.upto:\n")], mention="L2"),
    M("c07-capture-only-start-line", "C07",
      [(TKR, "            for lnum, text in self.physical_lines(tok):\n                if lnum not in lines:\n                    lines[lnum] = text if is_indented or lnum > tok.start[0] else text[tok.start[1] :]\n",
        "            if tok.start[0] not in lines:\n                lines[tok.start[0]] = tok.line if is_indented else tok.line[tok.start[1] :]\n")], mention="M1"),
    M("benign-last-token-for-loop", "ALL",
      [(TKR, "        idx = self._index - 1\n        while idx >= 0:\n            tok = self._tokens[idx]\n            if tok.type not in {Token.ENDMARKER, Token.NEWLINE, Token.DEDENT, Token.INDENT}:\n                return tok\n            idx -= 1\n",
        "        for idx in range(self._index - 1, -1, -1):\n            tok = self._tokens[idx]\n            if tok.type not in {Token.ENDMARKER, Token.NEWLINE, Token.DEDENT, Token.INDENT}:\n                return tok\n")],
      expect="silent", checks=ALLP),
    M("benign-tab-stop-arithmetic", "ALL",
      [(TKZ, "column = (column // tabsize + 1) * tabsize", "column += tabsize - column % tabsize")], expect="silent", checks=ALLP),
    M("benign-has-buffer-operands-swapped", "ALL",
      [(TKZ, "        if (middle_end > state.pos) or (endprog.text):  # has buffer\n", "        if endprog.text or middle_end > state.pos:  # has buffer\n")],
      expect="silent", checks=ALLP),
    M("benign-parse-early-return", "ALL",
      [(SUB, """        if res is None:
            # Grab the last token that was parsed in the first run to avoid
            # polluting a generic error reports with progress made by invalid rules.
            last_token = self._tokenizer.diagnose()

            if not call_invalid_rules:
                self.call_invalid_rules = True

                # Reset the parser cache to be able to restart parsing from the
                # beginning.
                self._reset(0)  # type: ignore
                self._cache.clear()

                res = getattr(self, rule)()

            self.raise_raw_syntax_error("invalid syntax", last_token.start, last_token.end)

        return res
""", """        if res is not None:
            return res
        last_token = self._tokenizer.diagnose()
        if not call_invalid_rules:
            self.call_invalid_rules = True
            self._reset(0)  # type: ignore
            self._cache.clear()
            res = getattr(self, rule)()
        self.raise_raw_syntax_error("invalid syntax", last_token.start, last_token.end)
        return res
""")],
      expect="silent", checks=ALLP),
    M("benign-memo-fast-path-operands-swapped", "ALL",
      [(SUB, "        key = mark, method_name, args\n        # Fast path: cache hit, and not verbose.\n        if key in self._cache and not self._verbose:\n",
        "        key = mark, method_name, args\n        # Fast path: cache hit, and not verbose.\n        if not self._verbose and key in self._cache:\n")], expect="silent", checks=ALLP),
    M("benign-check-version-no-else", "ALL",
      [(SUB, "            return node\n        else:\n            raise SyntaxError(f\"{error_msg} is only supported in Python {min_version} and above.\")",
        "            return node\n        raise SyntaxError(f\"{error_msg} is only supported in Python {min_version} and above.\")")], expect="silent", checks=ALLP),
    M("benign-indentation-error-one-tuple", "ALL",
      [(SUB, "        args = (self.filename, last_token.start[0], last_token.start[1] + 1, last_token.line)\n        args += (last_token.end[0], last_token.end[1] + 1)  # type: ignore\n",
        "        args = (self.filename, last_token.start[0], last_token.start[1] + 1, last_token.line, last_token.end[0], last_token.end[1] + 1)\n")],
      expect="silent", checks=ALLP),
    M("c03-literal-value-no-valueerror", "C03",
      [(SUB, "        except ValueError as e:  # e.g. a lone surrogate in a string literal\n            self.raise_syntax_error_known_location(str(e), tok)\n", "")],
      mention="E8"),
    M("c11-literal-value-no-relocation", "C11",
      [(SUB, "        try:\n            return ast.literal_eval(tok.string)\n        except SyntaxError as e:\n            self.raise_syntax_error_known_location(e.msg, tok)\n        except ValueError as e:  # e.g. a lone surrogate in a string literal\n            self.raise_syntax_error_known_location(str(e), tok)\n",
        "        return ast.literal_eval(tok.string)\n")], mention="Y1-foreign"),
    M("c03-empty-source-file-branch", "C03",
      [(TKR, "        if not self._path:\n            lines = self._lines\n", "        if self._lines:\n            lines = self._lines\n")], mention="Z4"),
]
