"""Rules about the three macro flags and the path-literal side channel (shared by C07, C13, C14)."""
from __future__ import annotations

import ast
from typing import Optional

from . import actions, repo
from .common import AnalysisError, Check, norm_stmt, parse_py
from .ir import Cut, Gather, Group, Look, Opt, Ref, Rep, Tok, walk_alt_items
from .pyflow import CFG, Index, own_nodes

FLAGS = ("_call_macro", "_with_macro", "_proc_macro")


def flag_writes(ix: Index):
    """[(flag, value, Func, node)] for every assignment to a macro flag outside constructors."""
    out = []
    for q, f in sorted(ix.funcs.items()):
        if f.node.name == "__init__":
            continue
        for n in own_nodes(f.node):
            if isinstance(n, ast.Assign):
                for t in n.targets:
                    if isinstance(t, ast.Attribute) and t.attr in FLAGS:
                        val = n.value.value if isinstance(n.value, ast.Constant) else None
                        out.append((t.attr, val, f, n))
    return out


def setters_in_actions(ir, ix: Index, helper_names: set[str]):
    """Grammar alternatives whose action calls one of the given helper methods: [(rule, key, alt, helper)]."""
    out = []
    for rule, key, a in actions.all_alts(ir.rules):
        if a.action is None:
            continue
        for n in ast.walk(a.action):
            if isinstance(n, ast.Call) and isinstance(n.func, ast.Attribute) and norm_stmt(n.func.value) == "self" \
                    and n.func.attr in helper_names:
                out.append((rule, key, a, n.func.attr))
    return out


def rule_m3(chk: Check, ix: Index, ir, rule_id: str = "M3-flag-typestate"):
    writes = flag_writes(ix)
    by_flag: dict[str, dict] = {f: {"set": [], "reset": []} for f in FLAGS}
    for flag, val, f, n in writes:
        if val is True:
            by_flag[flag]["set"].append((f, n))
        elif val is False:
            by_flag[flag]["reset"].append((f, n))
        else:
            chk.count(rule_id)
            chk.fail(rule_id, f"{f.qual}:{norm_stmt(n)}", f"{f.rel}:{n.lineno}",
                     f"macro flag `{flag}` is assigned a non-constant value")
    for flag in FLAGS:
        sets, resets = by_flag[flag]["set"], by_flag[flag]["reset"]
        chk.count(rule_id)
        # (a) exactly one setter, a Parser.handle_*_start helper that does nothing else but return its argument
        ok = len(sets) == 1 and sets[0][0].cls == "Parser" and sets[0][0].node.name.startswith("handle_") and \
            sets[0][0].node.name.endswith("_start") and len(sets[0][0].node.body) == 2 and \
            isinstance(sets[0][0].node.body[1], ast.Return)
        chk.require(ok, rule_id, f"{flag}:single-setter", sets[0][0].where if sets else repo.SUBHEADER,
                    f"`{flag}` must be switched on in exactly one handle_*_start helper "
                    f"(found: {[s[0].qual for s in sets]})")
        if not ok:
            continue
        setter = sets[0][0].node.name
        # (b) at least one reset, in the capture routine (tokenizer) or in a helper called by the consuming action
        chk.count(rule_id)
        chk.require(bool(resets), rule_id, f"{flag}:has-reset",
                    resets[0][0].where if resets else repo.TOKENIZER,
                    f"`{flag}` is never switched off again: everything after the macro would be captured as raw text")
        reset_helpers = {f.node.name for f, _ in resets if f.cls == "Parser"}
        reset_capture = {f.node.name for f, _ in resets if f.cls == "Tokenizer"}
        # (c) grammar side: where the setter is called, commitment and consumption
        starts = setters_in_actions(ir, ix, {setter})
        chk.count(rule_id)
        if not chk.require(len(starts) == 1, rule_id, f"{flag}:start-rule", repo.PARSER_X,
                           f"`{setter}` must be called from exactly one grammar alternative (found {[k for _, k, _, _ in starts]})"):
            continue
        start_rule = starts[0][0].name
        # every reference to the start rule
        for r in ir.rules.values():
            for i, a in enumerate(r.alts):
                for j, ni in enumerate(a.items):
                    it = ni.item
                    inner = it.item if isinstance(it, Look) else it
                    if not (isinstance(inner, Ref) and inner.name == start_rule):
                        continue
                    chk.count(rule_id)
                    key = f"{flag}:{r.name}#alt{i}.i{j}"
                    nxt = a.items[j + 1].item if j + 1 < len(a.items) else None
                    # committed: `~` right after it, or already committed by an earlier `~` of the same alternative
                    committed = isinstance(nxt, Cut) or len(r.alts) == 1 or any(isinstance(p.item, Cut) for p in a.items[:j])
                    chk.require(committed, rule_id, key + ":commit", str(a.pos),
                                f"`{start_rule}` switches `{flag}` on during a speculative parse; the alternative `{a}` must commit "
                                f"with `~` right after it (or be the rule's only alternative), otherwise a failed attempt leaves raw-"
                                f"capture mode on for the alternatives tried next")
                    if isinstance(it, Look):
                        continue  # the consuming reference is the one that follows the lookahead
                    # consumption: later in the alternative a raw-text item is captured and the action calls a helper
                    # that switches the flag off, or the capture routine itself does
                    rest = a.items[j + 1:]
                    consumes = any(isinstance(x, Tok) and x.name == "MACRO_PARAM" for n2 in rest for x in _walk(n2.item)) or \
                        any(isinstance(n2.item, Rep) for n2 in rest)
                    calls = {n.func.attr for n in ast.walk(a.action) if isinstance(n, ast.Call) and isinstance(n.func, ast.Attribute)} \
                        if a.action is not None else set()
                    chk.count(rule_id)
                    chk.require(consumes and (bool(calls & reset_helpers) or bool(reset_capture)), rule_id, key + ":consume",
                                str(a.pos),
                                f"after `{start_rule}` the alternative must capture the raw text and its action (or the capture routine) "
                                f"must switch `{flag}` off; action calls {sorted(calls)}, resetting helpers {sorted(reset_helpers)}, "
                                f"capture routines that reset {sorted(reset_capture)}")
    # a helper that switches a flag off must do so on every path to its exits (an early return would leave raw-capture
    # mode on for everything that follows)
    for flag, val, f, n in writes:
        if val is not False or f.cls != "Parser":
            continue
        cfg = CFG(f.node)
        node = next((c for c in cfg.nodes if c.stmt is n), None)
        chk.count(rule_id)
        ok = node is not None and cfg.must_pass(cfg.entry.id, [cfg.exit.id], [node.id])
        chk.require(ok, rule_id, f"{flag}:{f.qual}:reset-on-all-paths", f"{f.rel}:{n.lineno}",
                    f"`{f.qual}` can return without executing `{norm_stmt(n)}`: after such a call raw-capture mode stays on and the "
                    f"rest of the source is tokenized differently")
    # resets in the capture routines sit in the closing-delimiter branches
    f = ix.get("Tokenizer.consume_macro_params")
    chk.count(rule_id)
    ok = any(isinstance(n, ast.If) and "is_exact_type(')')" in norm_stmt(n.test) and
             any(norm_stmt(s) == "self._call_macro = False" for s in n.body) and
             any(isinstance(s, ast.Break) for s in n.body) and
             any("self._stack.append(tok)" in norm_stmt(s) for s in n.body) for n in own_nodes(f.node))
    from .checks.bufeval import arbitrate
    arbitrate(chk, ok, rule_id, "_call_macro:closing-paren", f.where,
              "on the closing `)` the call-macro scanner must push the token back, switch the flag off and stop")


def _walk(it):
    yield it
    for c in it.children():
        yield from _walk(c)


def rule_n2(chk: Check, ix: Index, ir, rule_id: str = "N2-path-token"):
    """_path_token: written non-None in one helper, consumed and cleared by the only rule that uses that helper's rule."""
    sets, clears = [], []
    for q, f in sorted(ix.funcs.items()):
        if f.node.name == "__init__":
            continue
        for n in own_nodes(f.node):
            if isinstance(n, ast.Assign) and any(norm_stmt(t) == "self._path_token" for t in n.targets):
                (clears if isinstance(n.value, ast.Constant) and n.value.value is None else sets).append((f, n))
    chk.count(rule_id)
    if not chk.require(len(sets) == 1 and len(clears) >= 1, rule_id, "_path_token:set/clear", repo.SUBHEADER,
                       f"`_path_token` must have one setter and a clearing consumer (setters {[f.qual for f, _ in sets]}, "
                       f"clears {[f.qual for f, _ in clears]})"):
        return
    setter, consumer = sets[0][0].node.name, clears[0][0].node.name
    # the clear is in the same branch that reads it
    cf = clears[0][0]
    chk.count(rule_id)
    ok = any(isinstance(n, ast.If) and "self._path_token" in norm_stmt(n.test) and
             any(norm_stmt(s) == "self._path_token = None" for s in n.body) for n in own_nodes(cf.node))
    chk.require(ok, rule_id, f"{cf.qual}:clear-with-read", cf.where,
                "the branch that reads the pending path token must also clear it")
    # every path through the consumer either clears the token or has seen it to be falsy
    cfg = CFG(cf.node)
    clear_nodes = [c.id for c in cfg.nodes if c.stmt is not None and isinstance(c.stmt, ast.Assign)
                   and norm_stmt(c.stmt) == "self._path_token = None"]
    tests = [c.id for c in cfg.nodes if c.kind == "test" and "self._path_token" in c.label]
    reach = cfg.reach([cfg.entry.id], avoid=clear_nodes,
                      edge_ok=lambda a, b, lab: not (a in tests and lab == "F"))
    chk.count(rule_id)
    chk.require(cfg.exit.id not in reach, rule_id, f"{cf.qual}:clear-on-all-paths", cf.where,
                f"`{cf.qual}` has a path to its return on which the pending path token is neither cleared nor known to be unset: it "
                f"then attaches itself to the next string literal parsed")
    # grammar: rules whose action calls the setter may only be referenced from rules whose every action calls the consumer
    set_rules = {r.name for r, k, a, h in setters_in_actions(ir, ix, {setter})}
    chk.count(rule_id)
    if not chk.require(bool(set_rules), rule_id, f"{setter}:called", repo.PARSER_X, f"`{setter}` is not called by any action"):
        return
    for r in ir.rules.values():
        for i, a in enumerate(r.alts):
            refs = [it.name for it in walk_alt_items(a) if isinstance(it, Ref) and it.name in set_rules]
            if not refs:
                continue
            chk.count(rule_id)
            calls = {n.func.attr for n in ast.walk(a.action) if isinstance(n, ast.Call) and isinstance(n.func, ast.Attribute)} \
                if a.action is not None else set()
            chk.require(consumer in calls, rule_id, f"{r.name}#alt{i}:consumes", str(a.pos),
                        f"`{refs[0]}` can leave a pending path-literal token behind; `{r.name}` uses it without calling "
                        f"`{consumer}`, so the token would attach itself to the next string literal parsed anywhere")


def rule_m5(chk: Check, ix: Index, rule_id: str = "M5-indent-balance"):
    f = ix.get("Tokenizer.consume_with_macro_params")
    fors = [n for n in own_nodes(f.node) if isinstance(n, ast.For) and "_tokengen" in norm_stmt(n.iter)]
    if len(fors) != 1:
        raise AnalysisError("with-macro capture loop (the loop over the raw token stream) not found")
    loop = fors[0]
    # decisions of one loop iteration as a path set (blind to elif-vs-if and else nesting)
    from .pyflow import stmt_paths
    try:
        paths = stmt_paths(loop.body, opaque_loops=True)
    except AnalysisError as e:
        raise AnalysisError(f"with-macro capture loop is not straight-line decision code: {e}")

    def when(pth, needle, truth=True):
        return any(x[0] == "cond" and needle in x[1] and x[2] is truth for x in pth)

    def effects(pth):
        return [x[1] for x in pth if x[0] == "do"]

    ind = [pth for pth in paths if when(pth, "Token.INDENT")]
    ded = [pth for pth in paths if when(pth, "Token.DEDENT")]
    chk.count(rule_id)
    # INDENT: the first one right after the header line is swallowed and marks the block as indented; later ones are counted
    first = [pth for pth in ind if "is_indented = True" in effects(pth)]
    later = [pth for pth in ind if "is_indented = True" not in effects(pth)]
    ok_ind = bool(first) and bool(later) and all(pth[-1][1] == "continue" and "indent += 1" not in effects(pth) and
                                                  (when(pth, "not is_indented", True) or when(pth, "is_indented", False) or
                                                   when(pth, "idx == 1", True)) for pth in first) and \
        all("indent += 1" in effects(pth) for pth in later)
    chk.require(ok_ind, rule_id, "consume_with_macro_params:INDENT", f.where,
                "the INDENT that opens the block must be swallowed once, nested INDENTs counted")
    chk.count(rule_id)
    pos = [pth for pth in ded if any(x[0] == "cond" and x[1] == "indent" and x[2] is True for x in pth)]
    zero = [pth for pth in ded if any(x[0] == "cond" and x[1] == "indent" and x[2] is False for x in pth)]
    ok_ded = bool(pos) and bool(zero) and len(pos) + len(zero) == len(ded) and \
        all(effects(pth) == ["indent -= 1"] and pth[-1][1] == "continue" for pth in pos) and \
        all(effects(pth) == ["self._with_macro = False"] and pth[-1][1] == "break" for pth in zero)
    chk.require(ok_ded, rule_id, "consume_with_macro_params:DEDENT", f.where,
                "a DEDENT closes a nested level while the counter is positive (swallowed), and ends the capture — flag off, "
                "token not forwarded — exactly when the counter is zero")
    # writes to the counter only in those two places
    chk.count(rule_id)
    w = [norm_stmt(n) for n in own_nodes(f.node) if isinstance(n, (ast.Assign, ast.AugAssign)) and
         norm_stmt(n.targets[0] if isinstance(n, ast.Assign) else n.target) == "indent"]
    chk.require(sorted(w) == ["indent += 1", "indent -= 1", "indent = 0"], rule_id, "consume_with_macro_params:counter", f.where,
                f"the nesting counter must be written only as 0 / +1 / -1 (found {w})")
    # nothing but the MACRO_PARAM token is returned: no token of the block is forwarded
    rets = [n for n in own_nodes(f.node) if isinstance(n, ast.Return)]
    chk.count(rule_id)
    chk.require(len(rets) == 1 and "Token.MACRO_PARAM" in norm_stmt(rets[0]), rule_id, "consume_with_macro_params:result", f.where,
                "the capture must hand exactly one MACRO_PARAM token to the parser")
