"""E1: independent reader of the pegen grammar notation (does not import /repo/pegen).

Produces the raw grammar IR: explicit capture names only, groups kept as written, actions as raw
source text (parsed later, after LOCATIONS / UNREACHABLE expansion, by the consumer).
"""
from __future__ import annotations

import ast
from dataclasses import dataclass
from typing import Optional

from .ir import (Alt, Cut, Forced, Gather, Grammar, Group, Item, Lit, Look, NamedItem, Opt, Pos, Ref,
                 Rep, Rule, Tok)


class GrammarSyntaxError(Exception):
    def __init__(self, msg, file, line):
        super().__init__(f"{file}:{line}: {msg}")
        self.file, self.line, self.msg = file, line, msg


@dataclass
class T:
    kind: str  # NAME STRING OP ACTION END
    text: str
    line: int
    col0: bool = False  # token starts at column 0 of a line (rule start / meta start)
    bol: bool = False  # first token on its line


PUNCT = set(":|()[]&!~?*+.=$@,")


class _Lexer:
    def __init__(self, src: str, file: str):
        self.s, self.file = src, file
        self.i, self.line = 0, 1
        self.toks: list[T] = []

    def error(self, msg):
        raise GrammarSyntaxError(msg, self.file, self.line)

    def run(self) -> list[T]:
        s = self.s
        n = len(s)
        bol = True
        linestart = 0
        while self.i < n:
            c = s[self.i]
            if c == "\n":
                self.i += 1
                self.line += 1
                bol = True
                linestart = self.i
                continue
            if c in " \t\r\f":
                self.i += 1
                continue
            if c == "\\" and self.i + 1 < n and s[self.i + 1] == "\n":
                self.i += 2
                self.line += 1
                continue
            if c == "#":
                while self.i < n and s[self.i] != "\n":
                    self.i += 1
                continue
            col0 = self.i == linestart
            startline = self.line
            if c == "{":
                text = self._action()
                self.toks.append(T("ACTION", text, startline, col0, bol))
            elif c in "'\"":
                text = self._string()
                self.toks.append(T("STRING", text, startline, col0, bol))
            elif c.isalpha() or c == "_":
                j = self.i
                while j < n and (s[j].isalnum() or s[j] == "_"):
                    j += 1
                # string prefix? (only plain strings are used in grammars)
                self.toks.append(T("NAME", s[self.i:j], startline, col0, bol))
                self.i = j
            elif c in PUNCT:
                self.toks.append(T("OP", c, startline, col0, bol))
                self.i += 1
            else:
                self.error(f"unexpected character {c!r}")
            bol = False
        self.toks.append(T("END", "", self.line, True, True))
        return self.toks

    def _string(self) -> str:
        s, i = self.s, self.i
        q = s[i]
        if s.startswith(q * 3, i):
            j = s.find(q * 3, i + 3)
            while j != -1 and s[j - 1] == "\\" and s[j - 2] != "\\":
                j = s.find(q * 3, j + 1)
            if j == -1:
                self.error("unterminated triple-quoted string")
            text = s[i:j + 3]
            self.line += text.count("\n")
            self.i = j + 3
            return text
        j = i + 1
        while j < len(s) and s[j] != q:
            if s[j] == "\n":
                self.error("newline in string")
            if s[j] == "\\":
                j += 1
            j += 1
        if j >= len(s):
            self.error("unterminated string")
        self.i = j + 1
        return s[i:j + 1]

    def _action(self) -> str:
        """Raw text between balanced braces (Python strings and comments respected)."""
        s = self.s
        n = len(s)
        depth = 0
        j = self.i
        out = []
        while j < n:
            c = s[j]
            if c in "'\"":
                save_i = self.i
                self.i = j
                text = self._string()  # advances self.i and self.line
                out.append(text)
                j = self.i
                self.i = save_i
                continue
            if c == "#":
                while j < n and s[j] != "\n":
                    j += 1
                continue
            if c == "\n":
                self.line += 1
            if c == "{":
                depth += 1
                if depth == 1:
                    j += 1
                    continue
            elif c == "}":
                depth -= 1
                if depth == 0:
                    self.i = j + 1
                    return "".join(out).strip()
            out.append(c)
            j += 1
        self.error("unterminated action")
        return ""


class _Reader:
    def __init__(self, toks: list[T], file: str, token_names: set[str]):
        self.t, self.p, self.file = toks, 0, file
        self.token_names = token_names

    def error(self, msg, tok=None):
        tok = tok or self.t[self.p]
        raise GrammarSyntaxError(msg, self.file, tok.line)

    def peek(self, k=0) -> T:
        return self.t[min(self.p + k, len(self.t) - 1)]

    def at(self, text, k=0) -> bool:
        t = self.peek(k)
        return t.kind == "OP" and t.text == text

    def eat(self, text) -> T:
        if not self.at(text):
            self.error(f"expected {text!r}, found {self.peek().text!r}")
        self.p += 1
        return self.t[self.p - 1]

    # -------------------------------------------------------------
    def grammar(self) -> Grammar:
        g = Grammar(rules={}, file=self.file)
        order: list[str] = []
        while self.peek().kind != "END":
            t = self.peek()
            if not t.col0:
                self.error("expected a rule or meta at column 0", t)
            if self.at("@"):
                self.p += 1
                name = self.peek()
                if name.kind != "NAME":
                    self.error("meta name expected")
                self.p += 1
                val = None
                nxt = self.peek()
                if not nxt.bol and nxt.kind == "NAME":
                    val = nxt.text
                    self.p += 1
                elif not nxt.bol and nxt.kind == "STRING":
                    val = ast.literal_eval(nxt.text)
                    self.p += 1
                g.metas[name.text] = val
                continue
            r = self.rule()
            if r.name not in g.rules:
                order.append(r.name)
            g.rules[r.name] = r  # a later definition replaces the earlier one, position of the first
        g.rules = {n: g.rules[n] for n in order}
        return g

    def rule(self) -> Rule:
        t = self.peek()
        if t.kind != "NAME":
            self.error("rule name expected")
        self.p += 1
        typ = None
        if self.at("["):
            typ = self.bracket_text()
        memo = False
        if self.at("("):
            self.eat("(")
            m = self.peek()
            if not (m.kind in ("NAME", "STRING") and m.text.strip("'\"") == "memo"):
                self.error("only (memo) is a valid rule flag")
            self.p += 1
            self.eat(")")
            memo = True
        self.eat(":")
        if self.at("|"):
            self.p += 1
        alts = self.alts(top=True)
        return Rule(name=t.text, type=typ, alts=alts, memo=memo, pos=Pos(self.file, t.line))

    def bracket_text(self) -> str:
        """[ ... ] annotation: returns the raw-ish text (tokens joined)."""
        self.eat("[")
        depth = 1
        parts = []
        while True:
            t = self.peek()
            if t.kind == "END":
                self.error("unterminated annotation")
            self.p += 1
            if t.kind == "OP" and t.text == "[":
                depth += 1
            elif t.kind == "OP" and t.text == "]":
                depth -= 1
                if depth == 0:
                    break
            parts.append(t.text)
        return "".join(parts)

    def _alt_end(self, top: bool) -> bool:
        t = self.peek()
        if t.kind == "END":
            return True
        if top and t.col0:
            return True
        return t.kind == "OP" and t.text in ("|", ")", "]")

    def alts(self, top=False) -> list[Alt]:
        out = [self.alt(top)]
        while self.at("|") and not (top and self.peek().col0):
            self.p += 1
            out.append(self.alt(top))
        return out

    def alt(self, top: bool) -> Alt:
        start = self.peek()
        items: list[NamedItem] = []
        action = None
        while not self._alt_end(top):
            t = self.peek()
            if t.kind == "ACTION":
                action = t.text
                self.p += 1
                if not self._alt_end(top):
                    self.error("items after an action")
                break
            if self.at("$"):
                self.p += 1
                items.append(NamedItem(None, Tok("ENDMARKER", pos=Pos(self.file, t.line))))
                continue
            items.append(self.named_item())
        if not items:
            self.error("empty alternative", start)
        a = Alt(items=items, action=None, action_src=action or "", pos=Pos(self.file, start.line))
        a.default_action = action is None
        return a

    def named_item(self) -> NamedItem:
        t = self.peek()
        if t.kind == "NAME":
            if self.at("=", 1):
                self.p += 2
                return NamedItem(t.text, self.item())
            if self.at("[", 1):
                # NAME [annotation] '=' item ?
                save = self.p
                self.p += 1
                try:
                    self.bracket_text()
                    ok = self.at("=")
                except GrammarSyntaxError:
                    ok = False
                if ok:
                    self.p += 1
                    return NamedItem(t.text, self.item())
                self.p = save
        pos = Pos(self.file, t.line)
        if self.at("&") and self.at("&", 1):
            self.p += 2
            return NamedItem(None, Forced(self.atom(), pos=pos))
        if self.at("&"):
            self.p += 1
            return NamedItem(None, Look(self.atom(), True, pos=pos))
        if self.at("!"):
            self.p += 1
            return NamedItem(None, Look(self.atom(), False, pos=pos))
        if self.at("~"):
            self.p += 1
            return NamedItem(None, Cut(pos=pos))
        return NamedItem(None, self.item())

    def item(self) -> Item:
        t = self.peek()
        pos = Pos(self.file, t.line)
        if self.at("["):
            self.p += 1
            alts = self.alts()
            self.eat("]")
            return Opt(Group(alts, pos=pos), pos=pos)
        a = self.atom()
        if self.at("?"):
            self.p += 1
            return Opt(a, pos=pos)
        if self.at("*"):
            self.p += 1
            return Rep(a, 0, pos=pos)
        if self.at("+"):
            self.p += 1
            return Rep(a, 1, pos=pos)
        if self.at("."):
            self.p += 1
            node = self.atom()
            self.eat("+")
            return Gather(a, node, pos=pos)
        return a

    def atom(self) -> Item:
        t = self.peek()
        pos = Pos(self.file, t.line)
        if self.at("("):
            self.p += 1
            alts = self.alts()
            self.eat(")")
            return Group(alts, pos=pos)
        if t.kind == "NAME":
            self.p += 1
            if t.text in self.token_names:
                return Tok(t.text, pos=pos)
            return Ref(t.text, pos=pos)
        if t.kind == "STRING":
            self.p += 1
            val = ast.literal_eval(t.text)
            return Lit(val, soft=t.text.startswith('"'), pos=pos)
        self.error(f"unexpected {t.text!r} in alternative")
        raise AssertionError


def read_grammar(path: str, relfile: str, token_names: set[str]) -> Grammar:
    src = open(path, encoding="utf-8").read()
    toks = _Lexer(src, relfile).run()
    g = _Reader(toks, relfile, token_names).grammar()
    # A NAME that is upper-case but neither a token nor a rule is a dangling reference.
    return g
