"""Reference translation grammar-IR -> expected generated-parser IR (the documented generation step,
re-stated independently), and the canonical forms used to compare it with the decompiled module.

Canonical alt  = (guard, (item keys...), action dump with captures alpha-renamed to _c<i>, uses_locations)
Canonical rule = (decorator, whole_seq_alts, brackets_invalid, uses_locations, (canonical alts...))
"""
from __future__ import annotations

import ast
import copy
import re
from typing import Optional

from .ir import (Alt, Cut, Forced, Gather, Grammar, Group, Item, Lit, Look, NamedItem, Opt, Pos, Ref,
                 Rep, Rule, Tok, walk_alt_items)
from . import irtools

LOC_X = "**self.span(_lnum, _col)"
LOC_P = ("lineno=start_lineno, col_offset=start_col_offset, "
         "end_lineno=end_lineno, end_col_offset=end_col_offset")
UNREACHABLE = "None"


class TranslateError(Exception):
    def __init__(self, msg, pos: Optional[Pos]):
        super().__init__(f"{pos}: {msg}")
        self.pos, self.msg = pos, msg


# ------------------------------------------------------------------ structural simplification
def simplify_item(it: Item) -> Item:
    """What the call maker does to nested right-hand sides: a group with one alternative holding one
    item *is* that item (its action, if any, is dropped); `[x*]`, `[x+]`, `x*` are the same call."""
    if isinstance(it, Group):
        alts = it.alts
        if len(alts) == 1 and len(alts[0].items) == 1:
            return simplify_item(alts[0].items[0].item)
        return Group([simplify_alt(a) for a in alts], pos=it.pos, helper=it.helper)
    if isinstance(it, Opt):
        inner = simplify_item(it.item)
        if isinstance(inner, Rep):
            return Rep(inner.item, 0, pos=it.pos)
        if isinstance(inner, Opt):
            return inner
        return Opt(inner, pos=it.pos)
    if isinstance(it, Rep):
        return Rep(simplify_item(it.item), it.min, pos=it.pos)
    if isinstance(it, Gather):
        return Gather(simplify_item(it.sep), simplify_item(it.item), pos=it.pos)
    if isinstance(it, Look):
        return Look(simplify_item(it.item), it.positive, pos=it.pos)
    if isinstance(it, Forced):
        return Forced(simplify_item(it.item), it.text, pos=it.pos)
    return it


def simplify_alt(a: Alt) -> Alt:
    b = copy.copy(a)
    b.items = [NamedItem(ni.name, simplify_item(ni.item)) for ni in a.items]
    return b


def dropped_group_actions(it: Item, out: list):
    """Groups whose single alt/single item simplification silently drops an explicit action."""
    if isinstance(it, Group):
        if len(it.alts) == 1 and len(it.alts[0].items) == 1 and it.alts[0].action_src:
            out.append(it)
    for c in it.children():
        dropped_group_actions(c, out)


# ------------------------------------------------------------------ naming (generator convention)
def implicit_name(it: Item, dialect: str) -> Optional[str]:
    if isinstance(it, Tok):
        if dialect == "X":
            if it.name in ("SOFT_KEYWORD", "KEYWORD", "NAME", "ANY_TOKEN"):
                return it.name.lower()
            return "_" + it.name.lower()
        if it.name in ("NEWLINE", "DEDENT", "INDENT", "ENDMARKER", "ASYNC", "AWAIT"):
            return "_" + it.name.lower()
        return it.name.lower()
    if isinstance(it, Ref):
        return it.name
    if isinstance(it, Lit):
        return "literal"
    if isinstance(it, Group):
        if len(it.alts) == 1 and len(it.alts[0].items) == 1:
            ni = it.alts[0].items[0]
            return ni.name or implicit_name(ni.item, dialect)
        return "_tmp"  # artificial helper name; never referenced by a sane action
    if isinstance(it, Opt):
        return "opt"
    if isinstance(it, Rep):
        if dialect == "X":
            return "one_or_more" if it.min else "zero_or_more"
        return "_loop"
    if isinstance(it, Gather):
        return "gathered" if dialect == "X" else "_gather"
    if isinstance(it, Look):
        return None
    if isinstance(it, Cut):
        return "cut"
    if isinstance(it, Forced):
        return "forced"
    raise TypeError(it)


def has_invalid(it) -> bool:
    """The generator's InvalidNodeVisitor, including its blind spot: it does not look inside x* / x+
    (no visit_Repeat0/1 method), so an invalid_ reference there does not gate the alternative."""
    if isinstance(it, Alt):
        return any(has_invalid(ni.item) for ni in it.items)
    if isinstance(it, Ref):
        return it.name.startswith("invalid")
    if isinstance(it, Tok):
        return it.name.startswith("invalid")
    if isinstance(it, Group):
        return any(has_invalid(a) for a in it.alts)
    if isinstance(it, (Opt, Look, Forced)):
        return has_invalid(it.item)
    if isinstance(it, Gather):
        return has_invalid(it.item)
    return False


def _names_in(expr: ast.AST) -> set[str]:
    return {n.id for n in ast.walk(expr) if isinstance(n, ast.Name)}


def parse_action(src: str, pos) -> ast.expr:
    try:
        return ast.parse("(" + src + "\n)", mode="eval").body
    except SyntaxError as e:
        raise TranslateError(f"action is not a Python expression: {e.msg}: {src[:60]!r}", pos)


def translate_alt(a: Alt, dialect: str) -> Alt:
    """Expected form of one alternative (names bound as the generator would bind them)."""
    inv = has_invalid(a)
    src = a.action_src
    default = not src
    unreachable = False
    uses_loc = False
    if default and inv:
        src = "UNREACHABLE"
    if src:
        if "LOCATIONS" in src:
            uses_loc = True
            src = src.replace("LOCATIONS", LOC_X if dialect == "X" else LOC_P)
        if "UNREACHABLE" in src:
            unreachable = True
            src = src.replace("UNREACHABLE", UNREACHABLE)
    used = None
    action = None
    if src:
        action = parse_action(src, a.pos)
        used = _names_in(action)
    bound: list[str] = []
    items: list[NamedItem] = []
    for ni in a.items:
        it = ni.item
        name = implicit_name(it, dialect)
        if unreachable:
            name = None
        elif ni.name:
            name = ni.name
        if used is not None and name not in used:
            name = None
        if name and name != "cut":
            base, k = name, 0
            while name in bound:
                k += 1
                name = f"{base}_{k}"
            bound.append(name)
        if name == "cut":
            name = None
        items.append(NamedItem(name, simplify_item(it)))
    if action is None:
        if len(bound) == 1:
            action = ast.Name(bound[0], ast.Load())
        else:
            action = ast.List([ast.Name(b, ast.Load()) for b in bound], ast.Load())
    out = Alt(items=items, action=action, action_src=src, uses_locations=uses_loc, invalid_guard=inv,
              default_action=default, pos=a.pos)
    # nested groups get the same treatment
    out.items = [NamedItem(ni.name, _translate_nested(ni.item, dialect)) for ni in out.items]
    return out


def _translate_nested(it: Item, dialect: str) -> Item:
    if isinstance(it, Group):
        alts = it.alts
        # the compact form is not taken by a rule that has clean-up statements (`…without_invalid`) or an invalid_ alternative:
        # both need the long form (returns through add_return; the call_invalid_rules gate)
        if dialect == "X" and _rhs_helper_applies(alts) and not _mentions_invalid(alts):
            return Group([_seq_alt(a, dialect) for a in alts], pos=it.pos)
        return Group([translate_alt(a, dialect) for a in alts], pos=it.pos)
    if isinstance(it, Opt):
        return Opt(_translate_nested(it.item, dialect), pos=it.pos)
    if isinstance(it, Rep):
        return Rep(_translate_nested(it.item, dialect), it.min, pos=it.pos)
    if isinstance(it, Gather):
        return Gather(_translate_nested(it.sep, dialect), _translate_nested(it.item, dialect), pos=it.pos)
    if isinstance(it, Look):
        return Look(_translate_nested(it.item, dialect), it.positive, pos=it.pos)
    if isinstance(it, Forced):
        return Forced(_translate_nested(it.item, dialect), it.text, pos=it.pos)
    return it


def _rhs_helper_applies(alts: list[Alt]) -> bool:
    return len(alts) > 1 and not any(a.action_src for a in alts) and not any(len(a.items) > 1 for a in alts)


def _mentions_invalid(alts: list[Alt]) -> bool:
    """What the generator's InvalidNodeVisitor answers for a right-hand side: some item names a rule spelled `invalid…`."""
    from .ir import walk_alt_items
    return any(isinstance(it, Ref) and it.name.startswith("invalid") for a in alts for it in walk_alt_items(a))


def _seq_alt(a: Alt, dialect: str) -> Alt:
    it = _translate_nested(simplify_item(a.items[0].item), dialect)
    return Alt(items=[NamedItem("_v", it)], action=ast.Name("_v", ast.Load()), action_src="_v",
               default_action=True, invalid_guard=False, pos=a.pos)


def alts_use_locations(alts: list[Alt]) -> bool:
    for a in alts:
        if a.action_src and "LOCATIONS" in a.action_src:
            return True
        for ni in a.items:
            if isinstance(ni.item, Group) and alts_use_locations(ni.item.alts):
                return True
    return False


def translate_grammar(g: Grammar, dialect: str, pegen_compat_leftrec: bool = True):
    """Returns (expected rules dict, info) where info has left-recursion data."""
    lr, comps, graph = irtools.left_recursion(g.rules, pegen_compat=pegen_compat_leftrec)
    leaders = {}
    for comp, cands in comps:
        leaders[frozenset(comp)] = min(cands) if cands else None
    leader_of = {}
    for comp, cands in comps:
        for v in comp:
            leader_of[v] = leaders[frozenset(comp)]
    out: dict[str, Rule] = {}
    for r in g.rules.values():
        alts = r.alts
        # flatten: a rule that is a single parenthesised group is that group's alternatives
        flat = alts
        if len(alts) == 1 and len(alts[0].items) == 1 and isinstance(alts[0].items[0].item, Group):
            flat = alts[0].items[0].item.alts
        if r.name in lr:
            deco = "memoize_left_rec" if leader_of.get(r.name) == r.name else "logger"
        elif r.memo or dialect == "P":
            deco = "memoize"
        else:
            deco = None
        e = Rule(name=r.name, type=r.type, alts=[], memo=r.memo, decorator=deco, pos=r.pos)
        e.brackets_invalid = r.name.endswith("without_invalid")
        if dialect == "X" and _rhs_helper_applies(alts) and not e.brackets_invalid and not _mentions_invalid(alts):
            e.whole_seq_alts = True
            e.alts = [_seq_alt(a, dialect) for a in alts]
        else:
            e.uses_locations = alts_use_locations(alts)
            e.alts = [translate_alt(a, dialect) for a in flat]
        out[r.name] = e
    return out, {"left_recursive": lr, "components": comps, "graph": graph}


# ------------------------------------------------------------------ canonical forms
class _Renamer(ast.NodeTransformer):
    def __init__(self, mapping):
        self.mapping = mapping

    def visit_Name(self, node):
        if node.id in self.mapping:
            return ast.copy_location(ast.Name(self.mapping[node.id], node.ctx), node)
        return node


def canon_action(a: Alt) -> str:
    mapping = {}
    for i, ni in enumerate(a.items):
        if ni.name:
            mapping[ni.name] = f"_c{i}"
    expr = copy.deepcopy(a.action)
    expr = _Renamer(mapping).visit(expr)
    return ast.dump(expr, annotate_fields=False)


def canon_item(it: Item, helpers=None):
    if isinstance(it, Group):
        return ("group", tuple(canon_alt(a, helpers) for a in it.alts))
    if isinstance(it, Opt):
        return ("opt", canon_item(it.item, helpers))
    if isinstance(it, Rep):
        return ("rep", it.min, canon_item(it.item, helpers))
    if isinstance(it, Gather):
        return ("gather", canon_item(it.sep, helpers), canon_item(it.item, helpers))
    if isinstance(it, Look):
        return ("look", it.positive, canon_item(it.item, helpers))
    if isinstance(it, Forced):
        return ("forced", canon_item(it.item, helpers))
    return it.key()


def canon_alt(a: Alt, helpers=None):
    used = _names_in(a.action) if a.action is not None else set()
    bound = tuple(i for i, ni in enumerate(a.items) if ni.name and ni.name in used)
    return (a.invalid_guard, tuple(canon_item(ni.item, helpers) for ni in a.items), bound, canon_action(a))


def canon_rule(r: Rule):
    return (r.decorator, r.whole_seq_alts, r.brackets_invalid, tuple(canon_alt(a) for a in r.alts))


def describe_item(c) -> str:
    return repr(c)
