#!/usr/bin/env python3
"""Regenerates MANIFEST.json from the table below (keeps it valid and in one place)."""
import json
import os

HERE = os.path.dirname(os.path.dirname(os.path.abspath(__file__)))

CLAIMED = {
    "C01": dict(
        technique="abstract interpretation of grammar actions against the ASDL schema + syntactic IR rules (operator table, operand order, associativity, precedence ladder, provenance of argument layout) + finite-domain evaluation from source of the runtime combinators, memo wrappers, token matchers, literal evaluation and the joining of adjacent literals",
        category="other",
        text="Decides the structural clauses A1-A10 (field names/kinds, no lost capture, operator class vs spelling, operand order, span provenance, associativity, precedence ladder, argument layout, look-aheads covering the FIRST set of what they guard, one column unit, backtracking discipline of the 14 hand-written combinators) and, as necessary conditions of tree equality, the rule sets of C04 (node well-formedness), C08 (token text/positions) and C09 (lexical agreement with CPython). Equality with CPython over all programs is NOT decided; each clause is a necessary condition whose breach changes a field or span on every input reaching the alternative.",
        note="trusts ast.X.__doc__ signatures and ast._Unparser tables of the running interpreter, the decompiler (pyir), the abstract semantics of the supported Python subset (absint) and two small language tables (source order exceptions, precedence ladder)"),
    "C04": dict(
        technique="abstract interpretation (list/optional/kind/context typestate/location completeness per constructor site), nullable analysis",
        category="other",
        text="Every ast.X(...) construction reachable from grammar actions (incl. helper functions, inlined per call site) is checked against the ASDL signature: list fields get lists, required fields are never None, node kinds match, nodes are complete when they enter a tree, Store/Del/Load typestate incl. containers and context rewriting, complete locations, non-empty spans, untouched singletons. compile()'s semantic rejections are outside the static clause.",
        note="trusts the ASDL docstrings, absint's abstract semantics and the binding-field table; nodes read back from Load positions are assumed Load (checked where stored)"),
    "C16": dict(
        technique="static translation validation: grammar IR vs decompiled generated module",
        category="translation_validation",
        text="IR(grammar) through a reference re-statement of the generation step equals IR(decompiled shipped module), for both shipped pairs, per rule and alternative; decided from sources without running the generator.",
        note="trusts the independent grammar reader, the decompiler and the reference translation in xpverif/; a generator edit that changes future output while shipped files stay untouched is visible only through the generator facts GF1-GF14 (hash order, keyword regex, truthiness commas, sorted tables, decorator emission, helper identity, class-level state, last definition wins, returns through clean-up, self-edges in the cycle search, NAME-leaf translation, dedupe, cut variable, items through the visitor) and the C17 clauses - any other generator-only edit is NOT decided; helper methods are compared after inlining, so the counter-based numbering of _tmp_N names is NOT compared (it drifted once through hand edits and was repaired in /repo 788ab9a)"),
}

CLAIMED.update({
    "C03": dict(
        technique="loop-progress and exit analysis on a statement CFG, raise/assert/next() inventory over the call graph, reaching-definitions for asserts, abstract-interpretation type hazards",
        category="other",
        text="Decides, per loop and per raise site: scan-loop progress (fresh snapshot, monotone position writes, incrementing fallback, end-of-line guard), EOF exits of every line-loop mode, no bare next() on the token stream, only SyntaxError/IndentationError/TokenError raised from reachable code, asserts that cannot see None, total lookups, parse() never returning None, absence of attribute/iteration/operand type hazards in actions and helpers, that no regular expression the scanner matches with is exponentially ambiguous (EDA criterion on the pattern automaton; patterns gathered from the call sites), that the str/bytes guard of literal concatenation rejects both mixed orders, that conversions of input text (int/float/literal_eval) sit in a try that turns ValueError into SyntaxError, that the source file is opened only when a path was given, and - because exponential re-parsing is a hang for practical purposes - the memo-barrier and opener-reread criteria of C18. Termination of the PEG recursion itself rests on W3 (C18) and is bounded only by the interpreter stack (known finding D17).",
        note="callees resolved by method name (over-approximate reachability); regex facts of the progress argument are decided under C08/C09; infeasible-path false alarms are possible in principle for the reaching-definitions rule"),
    "C18": dict(
        technique="graph criterion on the decompiled grammar IR (same-position fork detection through unmemoised rules, nullable analysis), structural check of the memo wrappers",
        category="other",
        text="Decides a necessary condition for the packrat linearity argument: no unmemoised rule is evaluated twice at one input position inside a cycle of unmemoised rules (each such fork multiplies work per nesting level), cache hits are O(1) and the rule body runs only on a miss, parse() makes at most two passes, every repetition body consumes a token. Thorough adds the diagnostic pass; forks that exist only there are reported as undecided because early raises are not modelled.",
        note="positions are identified by syntactically equal item prefixes (forks through differently spelled equivalent prefixes are not seen); does not bound the backward scan of get_last_non_whitespace_token"),
})

CLAIMED.update({
    "C11": dict(
        technique="ownership / layout / sibling-agreement rules on the error plumbing (who may construct SyntaxError, argument tuple layout, span coherence, range order at call sites)",
        category="other",
        text="Decides that every SyntaxError/IndentationError reachable from the parser is built by the two builders with CPython's argument layout (both 0->1-based column conversions), text from the reported token or line range, coherent start/end in every raise_* helper, earlier item first in range errors, and that errors born in ast.literal_eval are intercepted. Deviations on today's tree (version gate, macro bracket mismatch, tokenizer IndentationError, literal_eval) are listed known findings.",
        note="token coordinates themselves are assumed right (C08); totality of the line lookup is C03/E3"),
    "C12": dict(
        technique="sibling-implementation agreement of the two entry points + effect rules on every text decoder / StringIO argument, source-verbatim dataflow rule, finite-domain evaluation of peek/getnext from source on raw-token streams (string mode remembers every physical line, file mode none)",
        category="other",
        text="Decides that parse_file and parse_string build the same pipeline and differ only in readline source, path= and filename=; that every open() names UTF-8; that both paths use the same newline translation; that the two sources of SyntaxError.text are selected by the path only and number lines alike.",
        note="PEP 263 coding cookies out of scope; relies on C03/C11 rules for the line lookup itself"),
})

CLAIMED.update({
    "C13": dict(
        technique="exhaustive effect inventory (who may write module/class/instance state), purity of cached functions, hash-order sink lint backed by constant-folded regex facts",
        category="other",
        text="Decides absence of shared mutable state: no function writes module-level bindings, caches wrap pure functions, no class-level mutable containers or mutable defaults, no import-time instances, fresh containers per constructor, context singletons never written, the only set-ordered construction is order-insensitive, and every instance attribute written outside a constructor is in a reviewed table of position-keyed caches / paired flags. Determinism, history-freedom and thread-safety follow from these; interleavings are not enumerated.",
        note="aliasing of module-level containers through locals is not tracked; pairing rules of the reviewed table are decided under C14/C07/C15"),
    "C14": dict(
        technique="typestate of parser/tokenizer state attributes: set->commit(cut)->consume->reset pairing on the grammar IR and the helper code, balanced counters, structural INDENT/DEDENT pairing",
        category="other",
        text="Decides state neutrality at statement end (necessary for whole = concatenation of parts): every state attribute written outside a constructor is position-keyed, a balanced counter, or a flag whose setter is committed by a cut and whose consumer resets it in the same alternative; with-macro capture swallows a balanced INDENT/DEDENT pair; NEWLINE only at bracket depth 0 and outside f-string literal mode; a statement starts only at depth exactly 0 (the depth is never reset); the text handed to the scanner is the caller's text (no end-of-input normalisation); an indented with-macro capture stays inside its block (known finding D42); module body = in-order concatenation of statement+. The whole-vs-parts equality itself is not decided.",
        note="memo entries are keyed by token index so cannot be hit across statements; the CLASSIFIED table is the trusted reading of each attribute"),
    "C15": dict(
        technique="partial evaluation: residual programs under verbose=False/True after erasing print-only effects must be syntactically equal (plus a locally checked lemma); who-may-read rule and monotone-gate shape for py_version",
        category="other",
        text="Decides that the verbose flag guards only print-only effects in every function that reads it (residual equality after three sound normalisations; the left-recursive wrapper's one difference is discharged by a lemma on what is stored with a falsy tree), and that py_version is read only by a monotone gate clamped by the interpreter and applied with the right floors to exactly the three gated constructs, each of which is built only under its gate.",
        note="assumes showpeek() only peeks and str()/repr() in log lines are effect-free"),
})

CLAIMED.update({
    "C02": dict(
        technique="gate/dominator analysis on the grammar IR (xonsh-only terminals from the folded OPS table vs CPython's exact-token table, token-pair adjacency of the Python fragment, least-fixpoint confinement), path rules on parse(), table agreement",
        category="other",
        text="Decides the second sentence of the property and the listed mechanisms: every alternative building a xonsh runtime call is gated by a xonsh-only lexeme (or an impossible-in-Python token pair) or confined behind such gates; start rules end in ENDMARKER; a failed parse always raises; nothing accepts ERRORTOKEN and wildcard token items are confined; keyword tables equal CPython's; diagnostic rules are gated; the 190 grammar rules that are structurally CPython 3.11's own (vendored python.gram as sibling implementation) still are; the scanner-side rejections (inconsistent dedent, unterminated one-line string, bytes mixed with str/f-strings, lone closing brace in f-string text - the last a listed known finding) are in place. For rules that already differ from CPython's, whether they became too permissive (language inclusion) is NOT decided.",
        note="trusts token.EXACT_TOKEN_TYPES / keyword of the running interpreter; the CFG reading over-approximates the PEG, so pair-absence is sound"),
})

CLAIMED.update({
    "C05": dict(
        technique="symbolic evaluation of the sugar builders (abstract interpreter with shape and location provenance) compared with the documented translation table; placement rules on the grammar IR",
        category="other",
        text="Decides: each builder returns exactly the documented translation shape; the xonsh alternatives sit in the rule all expression positions bottom out in and every plain-NAME expression leaf is that rule's atom or an excluded position; the returned node carries the span the builder was called with; $NAME and ${expr} are offered as Store targets; plus the rule sets its constructs rest on (subprocess forms C06 P1-P4, path-token flag pairing, backtick lexeme prefix-freeness and string continuation). Tree equality with the written-out translation in every surrounding context is NOT decided.",
        note="trusts absint's abstract semantics and the translation table taken from the property statement"),
    "C06": dict(
        technique="table extraction from the IR, symbolic evaluation of builders (shape + span provenance), structural rules on the word-assembly loop",
        category="other",
        text="Decides: the four bracket forms map to the four runtime methods, @(..) and @$(..) build the starred helper calls, adjacency compares end with start pairs, pieces are walked in order and a word is emitted exactly at a non-adjacent boundary, no helper shifts a piece's own start column, WS tokens are dropped outside raw capture, a word is Constant(tok.string) over the token's span and gluing is previous+current (incl. the span after gluing), every bracket form stays reachable through the look-ahead in front of it, and all column producers use one unit. Word splitting over all spellings (how every spelling tokenizes) is NOT decided.",
        note="token coordinates assumed right (C08)"),
    "C07": dict(
        technique="must-pass-through on the scanner's CFG, delimiter-table agreement, flag typestate (setter/cut/consumer/reset on all paths), symbolic evaluation of the macro builders, and finite-domain evaluation of the call-macro capture routine from source on all raw-token streams up to a length bound against a reference written from the property (also the arbiter when a shape rule does not recognise a refactored loop)",
        category="other",
        text="Decides: every non-delimiter token is appended before the next is fetched, arguments end only at top-level , or ), spans run first-start..last-end, block capture skips only structural tokens and keeps whole lines, bracket tables agree with the tokenizer, each macro flag has one setter committed by a cut and a consumer that resets it on all paths, builders pass raw text in order, INDENT/DEDENT swallowed in balance, and string tokens carry their full text and lines (C08 L1/L2). Fidelity over all argument texts is NOT decided.",
        note="token text equals source text (C08)"),
    "C08": dict(
        technique="per-construction-site symbolic check that token text is the slice of its span, accumulation/position pairing, regex group/width facts from the folded master pattern",
        category="other",
        text="Decides for every TokenInfo(...) site of tokenize.py that text == line[start:end] (slice, single character, stripped prefix, empty text, delimiter placed at the end of the preceding middle token), that multi-line accumulation appends exactly the unread slice and moves the position to its end, that every alternative of the master pattern is one named group at least one character wide and every advance yields a token / starts an accumulation / is a continuation, that INDENT/DEDENT pair with pushes/pops and the stream ends DEDENT* ENDMARKER, that position writes are monotone, that pending text is flushed before every f-string brace, that the rest of a line is joined onto an open literal only when the literal is triple-quoted or the line is continued and never after the f-string scanner matched a delimiter, that an unterminated one-line string or f-string text part raises, and that the continuation test is exact over all line endings (finite domain).",
        note="a regex match starts where it was asked to; synthetic MACRO_PARAM tokens of the parser-side wrapper are outside C08"),
    "C09": dict(
        technique="constant folding of the tokenizer's tables + regex automata (equivalence, prefix-freeness, intersection emptiness) against the running interpreter's tokenize/token tables; finite-domain evaluation of the indentation arithmetic; token-pair adjacency of the Python fragment",
        category="other",
        text="Decides agreement of every table and sub-language the two tokenizers are built from (number/name/comment patterns, string bodies and prefixes, operator set and longest-first order, tab stops and column arithmetic, bracket-depth tests, string continuation over LF/CRLF/none, unique end of the search-path lexeme) and non-interference of the xonsh additions. Equality of token streams for all sources is NOT decided.",
        note="stdlib tokenize/token of the running interpreter is the oracle; quick tier samples the alphabet partition, thorough scans all code points"),
    "C10": dict(
        technique="mode/pattern table extraction by constant folding, regex automata intersection with witnesses, push/pop pairing rules, finite-domain evaluation of the conversion check",
        category="other",
        text="Decides the scanner's tables and pairing (which delimiters each mode can see, that the brace search cannot cross an unescaped closing quote or stop at a doubled brace, exact push/pop of modes and bracket depth) and the grammar side (conversion accepts exactly s r a, conversion value, spec is a JoinedStr), the text clauses (escape decoding of literal text, named escapes, debug-field text, every colon-lexeme entering the spec branch) and the token/location rules f-strings share with C08/C04. Eight deviations present today (nested specs, closing quote, doubled braces, spec terminator, escapes, named escapes, debug text) are listed known findings with witnesses. Agreement with CPython over all f-strings is NOT decided.",
        note="the f-string scanner is known to be wrong in several independent ways; the check keeps those identified and reports anything new"),
})

CLAIMED.update({
    "C17": dict(
        technique="structural rules over the generator's source: handler exhaustiveness (visitor dispatch vs node classes), template extraction of the emitted call text with provenance of its holes, path rules over the emitting methods (must-pass-through / ordering per path), finite-domain evaluation of the nullable and first-graph helpers, path-set rules over the runtime combinators and memo wrappers",
        category="other",
        text="Decides NAMED STRUCTURAL CLAUSES only, each a necessary condition of PEG semantics whose breach changes what some grammar's parser accepts or returns: every node class the grammar reader builds has a call-maker handler (T1); each PEG operator's emitted call names that operator's runtime combinator with element/separator in the right order and one-tuple wrapping exactly for the operators that may succeed falsy (T4); every emitted alternative is condition -> action -> reset, with the cut flag and its early exit exactly when the alternative has a cut, the diagnostic gate exactly when it mentions an invalid_ rule, loop helpers collecting and re-marking, ordered choice over all alternatives (T3); nullable analysis and first-graph agree with their definitions on their finite abstract domains, the leader lies on every cycle, and the two graph routines of sccutils give the classes of mutual reachability / the first-repeat walks on every digraph over three vertices and a sample over four (T5, T6); the compact whole-rule form is taken only without invalid_ alternatives; the runtime combinators restore positions as PEG prescribes (R-combinators), the memo wrappers run the rule body only on a miss keyed by position, rule and arguments (W2), and the generator facts GF1-GF14. Equivalence of generated parsers with a PEG interpreter over all grammars and token strings is NOT decided; a generator edit outside these clauses is not seen.",
        note="trusts the operator<->combinator table written in the check and explores the per-item loops of the emitting methods for 0-2 iterations; assumes the property's own well-formedness side conditions on grammars"),
})

NOT_APPLICABLE = {}

PENDING = {}  # filled while checks are still being built


def main():
    ids = [json.loads(l)["id"] for l in open(os.path.join(HERE, "properties.jsonl"))]
    checks = []
    for pid in ids:
        if pid in CLAIMED:
            c = CLAIMED[pid]
            checks.append({
                "property_id": pid,
                "quick_cmd": f"./check {pid} --tier quick",
                "thorough_cmd": f"./check {pid} --tier thorough",
                "evidence_file": f"evidence/{pid}.json",
                "replay_cmd_template": f"cat {{path}}",
                "engine": "xpverif",
                "technique": c["technique"],
                "level_claimed": {"category": c["category"], "text": c["text"], "design_ref": f"DESIGN.md §4 {pid}"},
                "level_note": c["note"],
            })
    na = [{"property_id": p, "reason": r} for p, r in NOT_APPLICABLE.items()]
    for pid in ids:
        if pid not in CLAIMED and pid not in NOT_APPLICABLE:
            na.append({"property_id": pid, "reason": PENDING.get(pid, "check not armed yet (work in progress); nothing is claimed for it")})
    m = {
        "version": 1,
        "setup_cmd": "true",
        "hooks": {
            "guard": "XONSH_PARSER_VERIF",
            "enable": "none needed: every check reads /repo sources statically; nothing is instrumented",
            "baseline_off_cmd": "cd /repo && /venv/bin/python -m pytest -ra -q -p no:cacheprovider --timeout=900 --continue-on-collection-errors",
            "source_commits": [],
            "add_only": True,
        },
        "engines": [{"name": "xpverif", "path": "xpverif/", "serves_properties": sorted(CLAIMED),
                     "kind_free_text": "repository-specific static analysers: grammar IR reader, generated-parser decompiler, abstract interpreter over ast constructions, statement CFG/def-use, constant folder and regex automata (stdlib only)"}],
        "checks": checks,
        "not_applicable": na,
        "notes": "all checks are static: they read /repo's current sources and never import or run the repo's tokenizer, parser or generator. Known findings live in known_findings.json.",
    }
    with open(os.path.join(HERE, "MANIFEST.json"), "w") as f:
        json.dump(m, f, indent=1)
        f.write("\n")


if __name__ == "__main__":
    main()
