#!/venv/bin/python
"""Recompute `caught_by` of every adopted seed against the current /repo HEAD and the current checks.

Never touches /repo: each seed is applied to a private copy (as the self-test does).  Usage:
    tools/recheck_seeds.py [name-filter]
"""
from __future__ import annotations

import concurrent.futures
import json
import os
import shutil
import sys
import tempfile

sys.path.insert(0, os.path.dirname(os.path.dirname(os.path.abspath(__file__))))
from xpverif import selftest  # noqa: E402

ALL = ["C%02d" % i for i in range(1, 19)]
SEEDED = os.path.join(selftest.VERIF, "seeded")


def one(name: str) -> tuple[str, dict]:
    d = os.path.join(SEEDED, name)
    work = tempfile.mkdtemp(prefix="xpverif-recheck-")
    root = os.path.join(work, "repo")
    out: dict = {}
    try:
        selftest.make_copy(root)
        try:
            selftest.apply_patch(root, os.path.join(d, "patch.diff"))
        except Exception as e:
            return name, {"applies": False, "error": str(e)[:200]}
        for pid in ALL:
            code, txt = selftest.run_check(pid, root, work, "quick")
            if code != 0:
                out[pid] = {"exit": code, "lines": [l.strip()[:300] for l in txt.splitlines() if l.startswith(("  FAIL", "ANALYSIS-ERROR"))][:3]}
    finally:
        shutil.rmtree(work, ignore_errors=True)
    return name, {"applies": True, "results": out}


def main() -> int:
    flt = sys.argv[1] if len(sys.argv) > 1 else ""
    names = sorted(n for n in os.listdir(SEEDED) if flt in n and os.path.exists(os.path.join(SEEDED, n, "patch.diff")))
    with concurrent.futures.ThreadPoolExecutor(max_workers=8) as ex:
        res = dict(ex.map(one, names))
    bad = 0
    for n in names:
        r = res[n]
        mp = os.path.join(SEEDED, n, "meta.json")
        meta = json.load(open(mp))
        if meta.get("superseded"):
            print(f"{n}: superseded ({meta['superseded'][:80]}...)")
            continue
        if not r["applies"]:
            meta["applies_to_current_tree"] = False
            print(f"{n}: does not apply ({r.get('error')})")
        else:
            caught = sorted(p for p, v in r["results"].items() if v["exit"] == 1)
            broken = sorted(p for p, v in r["results"].items() if v["exit"] not in (0, 1))
            meta["applies_to_current_tree"] = True
            meta["caught_by"] = caught
            meta["check_results"] = r["results"]
            own = meta["property"] in caught
            print(f"{n}: caught_by={caught} own={'yes' if own else 'NO'}" + (f" analysis-error={broken}" if broken else ""))
            if not caught:
                bad += 1
        json.dump(meta, open(mp, "w"), indent=1)
    return 1 if bad else 0


if __name__ == "__main__":
    sys.exit(main())
