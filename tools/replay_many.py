#!/venv/bin/python
"""usage: tools/replay_many.py <prefix> [<prefix> ...] — replays benign/<prefix>* (all checks must stay silent), compact report"""
import ast, os, re, sys, json, concurrent.futures
sys.path.insert(0, os.path.dirname(os.path.dirname(os.path.abspath(__file__))))
from xpverif import selftest
muts = [m for m in selftest.load_mutants() if m["name"].startswith("benign-agent/") and any(m["name"].split("/")[1].startswith(p) for p in sys.argv[1:])]
with concurrent.futures.ThreadPoolExecutor(max_workers=16) as ex:
    res = list(ex.map(selftest.run_one, muts))
for r in res:
    if r["ok"]:
        print("ok ", r["name"]); continue
    print("BAD", r["name"], r.get("error", ""))
    seen = set()
    for p, (c, ls) in (r.get("results") or {}).items():
        for l in ls:
            if "VIOLATION" in l: continue
            l = re.sub(r"C\d\d/", "", l)
            if l not in seen:
                seen.add(l); print("    ", p, l[:400])
print(sum(1 for r in res if r["ok"]), "/", len(res))
