#!/bin/sh
# usage: tools/try_seed.sh <patch.diff> [checks...]   -- applies the patch to /repo, runs the checks, reverts
PATCH=$1; shift
CHECKS=${@:-"C01 C02 C03 C04 C11 C12 C13 C14 C15 C16 C17 C18 C05 C06 C07 C08 C09 C10"}
cd /repo || exit 2
git status --short | grep -q . && { echo "/repo not clean"; exit 2; }
git apply --whitespace=nowarn "$PATCH" || { echo "patch does not apply"; exit 2; }
cd /verif
for c in $CHECKS; do
  [ -f xpverif/checks/$(echo $c | tr A-Z a-z).py ] || continue
  out=$(VERIF_OUT=/tmp/seedout VERIF_EVIDENCE_DIR=/tmp/seedout/ev ./check $c 2>&1); code=$?
  if [ $code -ne 0 ]; then echo "== $c exit=$code"; echo "$out" | grep -E "FAIL|ANALYSIS-ERROR" | cut -c1-260 | head -4; fi
done
git -C /repo checkout -- . ; rm -rf /tmp/seedout
git -C /repo status --short | head -3
