#!/usr/bin/env python3
"""Verify a sub-agent's seeded change in its scratch worktree and adopt it under /verif/seeded/.

usage: adopt_seed.py <PROP> <worktree> <k> [--as <n>]
Checks: patch applies to the worktree's HEAD; the unedited test suite passes with it; the demo exits 1 with the
patch and 0 without; then copies the artefacts to /verif/seeded/<PROP>-<n> and lets tools/recheck_seeds.py apply the
patch to a private copy of /repo's HEAD, run every check and record which raise a violation.  /repo is never touched.
"""
import json, os, re, shutil, subprocess, sys

PY = "/venv/bin/python"


def sh(cmd, cwd=None, env=None, timeout=1200):
    r = subprocess.run(cmd, shell=True, cwd=cwd, env=env, capture_output=True, text=True, timeout=timeout)
    return r.returncode, r.stdout + r.stderr


def main():
    prop, wt, k = sys.argv[1], sys.argv[2], sys.argv[3]
    src = os.path.join(wt, "out", k)
    patch = os.path.join(src, "patch.diff")
    env = dict(os.environ, PYTHONPATH=wt, PYTHONDONTWRITEBYTECODE="1")
    assert sh("git status --short -uno", wt)[1].strip() == "", "worktree not at HEAD"
    ran = {}
    c, o = sh(f"timeout 120 {PY} out/{k}/demo.py", wt, env)
    ran["demo_without_patch"] = c
    assert sh(f"git apply --whitespace=nowarn {patch}", wt)[0] == 0, "patch does not apply"
    try:
        c, o = sh(f"timeout 900 {PY} -m pytest -q -p no:cacheprovider --timeout=900 2>&1 | tail -1", wt, env)
        ran["tests_with_patch"] = o.strip().splitlines()[-1] if o.strip() else ""
        c, o = sh(f"timeout 120 {PY} out/{k}/demo.py", wt, env)
        ran["demo_with_patch"] = c
        ran["demo_output_with_patch"] = o.strip()[-400:]
    finally:
        sh("git checkout -- .", wt)
    ok = ran["demo_without_patch"] == 0 and ran["demo_with_patch"] == 1 and ran["tests_with_patch"].startswith("2000 passed, 8 xfailed, 2 xpassed")
    print(json.dumps(ran, indent=1))
    if not ok:
        print("NOT ADOPTED: verification failed")
        return 1
    # which checks catch it: decided on a private copy of /repo's HEAD (tools/recheck_seeds.py), /repo is never touched
    name = sys.argv[sys.argv.index("--as") + 1] if "--as" in sys.argv else k
    caught, details = [], {}
    dst = f"/verif/seeded/{prop}-{name}"
    os.makedirs(dst, exist_ok=True)
    for f in ("patch.diff", "demo.py", "notes.md"):
        if os.path.exists(os.path.join(src, f)):
            shutil.copy(os.path.join(src, f), os.path.join(dst, f))
    needs = ""
    notes = os.path.join(src, "notes.md")
    if os.path.exists(notes):
        needs = " ".join(open(notes).read().split())[:600]
    meta = {"property": prop, "applies_to_current_tree": True, "origin": "independent sub-agent given only the property text and a scratch worktree",
            "needs_to_manifest": needs, "verified": ran, "caught_by": caught, "check_details": details}
    json.dump(meta, open(os.path.join(dst, "meta.json"), "w"), indent=1)
    print("ADOPTED", dst)
    return subprocess.call([PY, "/verif/tools/recheck_seeds.py", f"{prop}-{name}"])


if __name__ == "__main__":
    sys.exit(main())
