#!/usr/bin/env python3
"""Regenerates xpverif/localnames.json (reference signatures of function locals) from the clean tree in /repo."""
import ast, json, os, sys
sys.path.insert(0, os.path.dirname(os.path.dirname(os.path.abspath(__file__))))
from xpverif import localnames as L

repo = os.environ.get("VERIF_REPO", "/repo")
out = {}
for rel in L.FILES:
    mod = ast.parse(open(os.path.join(repo, rel), encoding="utf-8").read())
    from xpverif import common, normalise
    mod = normalise.normalise(mod, *common._normal_facts())
    out[rel] = {q: [list(x) for x in L.signatures(fn)] for q, fn in L.functions(mod) if L.signatures(fn)}
json.dump(out, open(L.TABLE, "w"), indent=0)
print({k: len(v) for k, v in out.items()})
