#!/venv/bin/python
"""usage: tools/try_patch.py <patch.diff> <CHECK> [grep]  — apply the patch to a private copy of /repo's HEAD, run one check, print its output."""
import os, shutil, sys, tempfile
sys.path.insert(0, os.path.dirname(os.path.dirname(os.path.abspath(__file__))))
from xpverif import selftest
work = tempfile.mkdtemp(prefix="xpverif-try-")
root = os.path.join(work, "repo")
try:
    selftest.make_copy(root)
    selftest.apply_patch(root, os.path.abspath(sys.argv[1]))
    code, txt = selftest.run_check(sys.argv[2], root, work, "quick")
    pat = sys.argv[3] if len(sys.argv) > 3 else ""
    for l in txt.splitlines():
        if pat in l:
            print(l[:400])
    print("exit", code)
finally:
    shutil.rmtree(work, ignore_errors=True)
