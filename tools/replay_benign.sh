#!/bin/sh
# usage: tools/replay_benign.sh <filter>   — replays /verif/benign/<filter>* through all checks, compact report
cd /verif && /venv/bin/python -m xpverif.selftest "benign-agent/$1" 2>&1 | /venv/bin/python -c "
import sys,re,ast
for line in sys.stdin:
    if line.startswith('BAD') and '{' in line:
        head, _, rest = line.partition('{')
        d = ast.literal_eval('{'+rest)
        print(head.strip())
        seen=set()
        for p,(c,ls) in d.items():
            for l in ls:
                l=re.sub(r'C\d\d/','',l); l=re.sub(r'property=C\d\d','',l)
                if 'VIOLATION' in l: continue
                if l not in seen:
                    seen.add(l); print('   ',p,l[:330])
    else: print(line.rstrip()[:300])
"
