#!/usr/bin/env python3
"""Regenerates xpverif/refnames.json (the functions of the hand-written modules on the clean tree: parameter count, kind,
callers) — the reference against which renamed / moved / newly extracted helpers are recognised (xpverif/helpers.py)."""
import ast, json, os, sys
sys.path.insert(0, os.path.dirname(os.path.dirname(os.path.abspath(__file__))))
from xpverif import helpers as H, localnames as L

repo = os.environ.get("VERIF_REPO", "/repo")
out = {}
for rel in L.FILES:
    mod = ast.parse(open(os.path.join(repo, rel), encoding="utf-8").read())
    facts = H.module_facts(mod)
    out[rel] = {q: {"params": v["params"], "kind": v["kind"], "callers": sorted(v["callers"])} for q, v in facts.items()}
json.dump(out, open(H.TABLE, "w"), indent=0, sort_keys=True)
print({k: len(v) for k, v in out.items()})

# reference structure of the xonsh grammar rules (rename detection, xpverif/repo.py:restore_rule_names)
from xpverif import repo, cpygram
if os.path.exists(repo.REF_RULES):
    os.remove(repo.REF_RULES)
repo.gram_x.cache_clear()
g = repo.gram_x()
json.dump({n: repr(cpygram.rule_sig(r)) for n, r in g.rules.items()}, open(repo.REF_RULES, "w"), indent=0, sort_keys=True)
print("rule signatures:", len(g.rules))
